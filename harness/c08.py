"""C08 -- a planted model is recovered through the whole pipeline.

spec/MC_Planted.tla (on FitKernel): planted (model, A_V0, scale | grid distance) -> photometry on the
lattice; TLC checks PlantedRecovered (chi^2 = 0 at the planted parameters, every other model > 0
when the grid is non-degenerate -- non-degeneracy is computed, not assumed).  Every configuration is
replayed through SED package -> convolve_model_dir -> fit() -> fit file -> write_parameters.
"""
import os
import random
import shutil
import tempfile

import numpy as np

from .common import model_check, MachineryError, pmap, Collector
from . import fitworld as fw
from . import pkgworld as pw
from .c06 import make_filter

GX = list(range(2, 27, 2))
# a second grid with the same number of nodes and the same end points but other interior nodes; every bin that overlaps a filter's
# support still lies inside one band, so the convolved flux is 10^(E/4) on either grid
GXB = [2, 3, 4, 5, 6, 7, 8, 9, 11, 14, 19, 22, 26]      # (positions of the bands differ from GX: weights binned for the other grid hit other bands)
FX = [[4, 6, 8], [12, 14, 16], [20, 22, 24]]
NAMES = ['mod_b', 'mod_c', 'mod_a']


def band_of(g):
    return 0 if g <= 10 else (1 if g <= 18 else 2)


def replay_one(col, bs, root, seed, bi):
    b = bs[0]
    from astropy import units as u
    from sedfitter import fit, write_parameters
    from sedfitter.convolve import convolve_model_dir
    from sedfitter.fit_info import FitInfoFile
    cfg = b['cfg']
    rng = random.Random(seed * 977 + bi)
    grid, K = b['grid'], b['K']
    mode = cfg['mode']
    fmt = rng.choice(['perfile', 'cube'])
    d = tempfile.mkdtemp(dir=root)
    desc = {'cfg': cfg, 'grid': grid, 'K': K, 'src': b['src'], 'format': fmt}
    try:
        ng = len(GX)
        wav = sorted(12.0 / g for g in GX)                       # increasing wavelength: rank w <-> GX[ng-1-w]
        # tabulated radii: the three requested ones (1 arcsec at 1, 10, 100 kpc) and one below / above; spec AP = <<0, 1, 2>>
        aps = [10.0, 1e3, 1e4, 1e5, 1e7] if mode == 'dist' else None
        apq = [0, 0, 1, 2, 2]
        dark = cfg.get('dark', 0)                                # band (1-based) in which an extra 4th model has ZERO flux
        nmod = 4 if dark else 3
        ALL = NAMES + ['mod_0dark']
        perm = rng.sample(range(nmod), nmod)
        names = [ALL[i] for i in perm]                           # parameter-table order

        def grid_of(m):
            return GXB if (fmt == 'perfile' and (perm[m] + bi) % 2) else GX

        def val(m, a, w):
            band = band_of(grid_of(m)[ng - 1 - w])
            ap = apq[a] if mode == 'dist' else 0
            if perm[m] == 3:
                return 0.0 if band == dark - 1 else 10.0 ** (0.25 * (band + 1 + ap))
            return 10.0 ** ((grid[perm[m]][band] + ap) / 4.0)
        unc = lambda m, a, w: 0.01 * val(m, a, w)
        pars = [{n_: 10.0 + ALL.index(n_) for n_ in ALL}, {n_: 100.0 * (1 + ALL.index(n_)) for n_ in ALL}]
        apu = ['au', 'pc', 'cm', 'kpc'][bi % 4]                      # the unit in which the package stores its aperture radii
        if fmt == 'perfile':
            stored = [rng.choice(['asc', 'desc']) for _ in range(nmod)]
            pw.build_perfile(d, names, wav, aps, val, unc, stored=stored, aperture_dependent=(mode == 'dist'), logd_step=1.0001, par_values=pars,
                             writer=(rng.choice(['lib', 'raw']) if apu == 'au' else 'lib'), ap_unit=apu,
                             wav_of=lambda m: sorted(12.0 / g for g in grid_of(m)))
        else:
            pw.build_cube(d, names, wav, aps, val, unc, order=rng.choice(['asc', 'desc']), aperture_dependent=(mode == 'dist'), logd_step=1.0001, par_values=pars, ap_unit=apu)
        filts = []
        for j in range(3):
            f = make_filter(FX[j], [1, 2, 1], desc=bool((j + bi) % 2), name='b%d' % j)
            f.normalize()
            filts.append(f)
        with fw.quiet():
            convolve_model_dir(d, filts)
        wavs = [12.0 / 6.0, 12.0 / 14.0, 12.0 / 22.0]
        law = fw.make_extinction(K, wavs, variety=bi)
        data = os.path.join(d, 'data.txt')
        with open(data, 'w') as fh:
            for si, bb in enumerate(bs):          # several planted sources go through ONE fit() run
                s = fw.make_source(bb['src'], name='planted_%d' % si)
                cols = [s.name, '0.0', '0.0'] + [str(int(v)) for v in s.valid]
                for a_, e_ in zip(s.flux, s.error):
                    cols += [repr(float(a_)), repr(float(e_))]
                fh.write(' '.join(cols) + '\n')
        out = os.path.join(d, 'out.fitinfo')
        with fw.quiet():
            fit(data, ['b0', 'b1', 'b2'], np.array([1.0, 10.0, 0.1] if mode == 'dist' else [1.0, 1.0, 1.0]) * u.arcsec, d, out, n_data_min=3, extinction_law=law,
                av_range=(0.0, 10.0), distance_range=np.array([1.0, 100.0]) * u.kpc, output_format=('N', nmod), output_convolved=bool(bi % 2))
            txt = os.path.join(d, 'pars.txt')
            write_parameters(out, txt, select_format=('N', 1))
        recs = list(FitInfoFile(out, 'r'))
        lines = open(txt).read().splitlines()[3:]
        blocks = {}
        cur = None
        for ln in lines:
            tk = ln.split()
            if len(tk) == 3 and tk[0].startswith('planted_'):
                cur = tk[0]
                blocks[cur] = []
            elif tk and cur:
                blocks[cur].append(tk)
        for si, bb in enumerate(bs):
            col.replayed += 1
            cfg = bb['cfg']
            want_name = NAMES[cfg['mp'] - 1]
            want_av = cfg['pl'][0] / 4.0
            want_sc = cfg['pl'][1] / 40.0 if mode == 'indep' else float(cfg['i0'] - 1)
            bad = None
            if si >= len(recs) or recs[si].source.name != 'planted_%d' % si:
                bad = 'no record for source %d' % si
            else:
                rec = recs[si]
                row = (blocks.get('planted_%d' % si) or [[]])[0]
                names_rec = [str(x).strip() for x in rec.model_name]
                k = names_rec.index(want_name) if want_name in names_rec else -1
                if k < 0:
                    bad = 'the planted model %s is not among the fits %r' % (want_name, names_rec)
                elif abs(rec.chi2[k]) > 1e-6 or abs(rec.av[k] - want_av) > 1e-5 or abs(rec.sc[k] - want_sc) > 1e-5:
                    bad = 'planted %s at A_V %g, scale %g: fitted chi2 %r, A_V %r, scale %r' % (want_name, want_av, want_sc, rec.chi2[k], rec.av[k], rec.sc[k])
                elif bb['nondeg']:
                    if names_rec[0] != want_name:
                        bad = 'planted %s is ranked %d, first is %s with chi2 %r' % (want_name, k + 1, names_rec[0], rec.chi2[0])
                    elif len(row) < 7 or row[1] != want_name or abs(float(row[2])) > 1e-3 or abs(float(row[3]) - want_av) > 1e-3 or abs(float(row[4]) - want_sc) > 1e-3:
                        bad = 'write_parameters first row %r, planted %s A_V %g scale %g' % (row, want_name, want_av, want_sc)
                    elif abs(float(row[5]) - pars[0][want_name]) > 1e-3 * pars[0][want_name] or abs(float(row[6]) - pars[1][want_name]) > 1e-3 * pars[1][want_name]:
                        bad = 'write_parameters prints parameters %r next to %s; its row of the parameter file is %r' % (row[5:], want_name, (pars[0][want_name], pars[1][want_name]))
                    elif len(rec.chi2) > 1 and not (rec.chi2[1] > 1e-9 or (dark and names_rec[1] == 'mod_0dark')):
                        bad = 'a second model also fits exactly although the grid is non-degenerate'
                # (where the dark model itself ends up is not C08's business -- only that it does not displace the planted one)
            if bad:
                col.violation('C08:%s:%s' % (mode, fmt), '%s package, %s mode, table order %r, source %d of %d in the run: %s' % (fmt, mode, names, si + 1, len(bs), bad),
                              dict(desc, cfg=cfg, src=bb['src'], all_sources=[x['cfg'] for x in bs]))
                break
    except Exception as e:
        col.violation('C08:raised:%s:%s:%s' % (mode, fmt, type(e).__name__), 'pipeline raised %r' % (e,), desc)
    finally:
        shutil.rmtree(d, ignore_errors=True)


def run(ctx):
    res = model_check(ctx, 'MC_Planted', 'MC_Planted.cfg', timeout=900, coverage=False)
    em = [b for b in res['emitted'] if isinstance(b, dict) and 'cfg' in b]
    if not em:
        raise MachineryError('no behaviours emitted')
    # the distance index only matters in dist mode, the planted scale only in indep mode: drop duplicates
    seen = set()
    uniq = []
    for b in em:
        c = b['cfg']
        key = (c['g'], c['k'], c['mp'], c['pl'][0], c['pl'][1] if c['mode'] == 'indep' else c['i0'], c['w'], c['mode'], c.get('dark', 0))
        if key not in seen:
            seen.add(key)
            uniq.append(b)
    rng = random.Random(ctx.seed)
    rng.shuffle(uniq)
    chosen = uniq[:240] if not ctx.thorough else uniq
    ctx.notes['mc_constants'] = '3 grids of 3 models (one with a degenerate pair, detected by the spec), 2 extinction patterns, every planted model x 4 (A_V0, scale) x 3 relative errors x {aperture-independent, distance grid 1/10/100 kpc x 3 planted distances} x {no extra model, a 4th model with zero flux in band 1 | 2}'
    ctx.notes['behaviours_emitted'] = len(uniq)
    ctx.notes['behaviours_replayed'] = len(chosen)
    ctx.notes['nondegenerate_replayed'] = sum(1 for b in chosen if b['nondeg'])
    ctx.sample({'behaviour': chosen[0]})
    root = ctx.mkdtemp('plant')

    groups = {}
    for b in chosen:
        groups.setdefault((b['cfg']['g'], b['cfg']['k'], b['cfg']['mode'], b['cfg'].get('dark', 0)), []).append(b)
    runs = []
    for key in sorted(groups):
        g_ = groups[key]
        i = 0
        while i < len(g_):
            n_ = 1 + (len(runs) % 3)              # runs of 1, 2 or 3 planted sources
            runs.append(g_[i:i + n_])
            i += n_

    def chunk(items):
        col = Collector()
        for bi, bs in items:
            replay_one(col, bs, root, ctx.seed, bi)
        return col
    for col in pmap(chunk, list(enumerate(runs))):
        col.merge_into(ctx)
    ctx.notes['fit_runs'] = len(runs)
    ctx.assumptions += ['SEDs are constant over each normalised filter\'s support so that convolved fluxes are 10^(E/4); package format, SED storage order, table permutation and filter storage order are drawn per replay',
                        'for a degenerate grid (computed by the spec) only the planted model\'s own row is compared']
