"""X03 (extension) -- utils/parfile.read (models.conf reader): every file of 3 lines over the line kinds."""
import os

from .common import model_check, MachineryError, pmap, Collector


def render(fmt, i, ln):
    k = ln['k']
    if k == 'comment':
        return '# k1 = 99', None
    if k == 'blank':
        return '   ' if i % 2 else '', None
    if k == 'noeq':
        return 'k1 12', None
    v = ln['val']
    text, val = {'int': (str(10 + i), 10 + i), 'float': ('%s' % (2.5 + i), 2.5 + i), 'yes': (['y', 'Yes', 'YES'][i % 3], True),
                 'no': (['n', 'No', 'NO'][i % 3], False), 'str': ('abc%d' % i, 'abc%d' % i)}[v]
    left, right = (ln['key'], text) if fmt == 'conf' else (text, ln['key'])
    pad = ['', ' ', '\t'][i % 3]
    s = '%s%s=%s%s' % (left, pad, pad, right)
    if ln['extra']:
        s += ' = junk'
    return s, val


def replay_chunk(behs, root):
    from sedfitter.utils import parfile
    col = Collector()
    p = os.path.join(root, 'conf_%d.txt' % os.getpid())
    for b in behs:
        vals = {}
        with open(p, 'w') as f:
            for i, ln in enumerate(b['lines']):
                s, v = render(b['fmt'], i + 1, ln)
                vals[i + 1] = v
                f.write(s + '\n')
        try:
            got = parfile.read(p, b['fmt'])
        except Exception as e:
            col.violation('X03:raised', 'parfile.read raised %r on %r' % (e, open(p).read()), b)
            continue
        col.replayed += 1
        want = {kk: vals[r['line']] for kk, r in b['result'].items() if r['set']}
        ok = set(got) == set(want) and all(type(got[k_]) is type(want[k_]) and got[k_] == want[k_] for k_ in want)
        if not ok:
            col.violation('X03:value', 'parfile.read(%s) of %r gives %r, spec %r' % (b['fmt'], open(p).read(), got, want), b)
    if os.path.exists(p):
        os.remove(p)
    return col


def run(ctx):
    res = model_check(ctx, 'ParFile', 'MC_ParFile.cfg', timeout=600, coverage=False)
    em = [b for b in res['emitted'] if isinstance(b, dict) and 'lines' in b]
    if not em:
        raise MachineryError('no behaviours emitted')
    ctx.notes['mc_constants'] = 'every file of 3 lines over {comment, blank, no "=", key = value (= extra)} x 2 keys x 5 value classes, conf and par formats'
    ctx.notes['behaviours_emitted'] = len(em)
    ctx.notes['exhaustive'] = True
    ctx.sample({'behaviour': em[len(em) // 2]})
    root = ctx.mkdtemp('pf')
    for col in pmap(lambda c: replay_chunk(c, root), em):
        col.merge_into(ctx)
