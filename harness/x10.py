"""X10 (extension) -- ConvolvedFluxes.sort_to_match / utils.misc.order_to_match (spec/SortMatch.tla): every (model_names, requested
names) pair up to three names is replayed on a real ConvolvedFluxes object whose flux rows carry their original row number, in three
spellings of the request (array, list, names padded with trailing blanks) and once with the object's own names padded: outcome, new names and which row ended up where."""
import numpy as np

import os

from .common import model_check, run_tlc, MachineryError, pmap, Collector, SPEC

NAME = {1: 'ma', 2: 'mb', 3: 'mc', 4: 'md'}


def replay_chunk(behs):
    from astropy import units as u
    from sedfitter.convolved_fluxes import ConvolvedFluxes
    from sedfitter.utils.misc import order_to_match
    col = Collector()
    for b in behs:
        names = [NAME[i] for i in b['names']]
        req = [NAME[i] for i in b['req']]
        for spelling in ('array', 'list', 'padded', 'object_padded'):
            col.replayed += 1
            c = ConvolvedFluxes()
            c.model_names = np.array([x + '  ' for x in names]) if spelling == 'object_padded' else np.array(names)
            c.apertures = [1., 2.] * u.au
            rows = np.arange(1, len(names) + 1, dtype=float)
            c.flux = np.outer(rows, [1., 10.]) * u.mJy
            c.error = np.outer(rows, [0.1, 1.]) * u.mJy
            r = {'array': np.array(req), 'list': list(req), 'padded': np.array([x + '  ' for x in req]), 'object_padded': np.array(req)}[spelling]
            want = b['out_padded_obj'] if spelling == 'object_padded' else b['out']
            try:
                c.sort_to_match(r)
                got = 'ok'
            except IndexError:
                got = 'IndexError'
            except Exception as e:
                got = 'Exception' if type(e) is Exception else type(e).__name__
            bad = None
            if got != want:
                bad = 'outcome %s, spec %s' % (got, want)
            elif spelling == 'object_padded':
                if [str(x) for x in c.model_names] != [x + '  ' for x in names] or [int(round(x)) for x in c.flux.value[:, 0]] != list(range(1, len(names) + 1)):
                    bad = 'a refused call changed the object'
            else:
                gn = [str(x) for x in c.model_names]
                wn = [NAME[i] for i in b['new_names']]
                gr = [int(round(x)) for x in c.flux.value[:, 0]]
                ge = [int(round(x * 10)) for x in c.error.value[:, 0]]
                if gn != wn:
                    bad = 'names after the call %r, spec %r' % (gn, wn)
                elif gr != list(b['new_rows']) or ge != list(b['new_rows']):
                    bad = 'rows after the call: flux %r error %r, spec %r' % (gr, ge, b['new_rows'])
                elif not np.allclose(c.flux.value[:, 1], 10. * c.flux.value[:, 0]):
                    bad = 'aperture columns of a row were separated'
            if bad is None and got == 'ok' and spelling == 'array':
                o = [int(x) + 1 for x in order_to_match(np.array(names), np.array(req))]
                if o != list(b['new_rows']):
                    bad = 'order_to_match returned %r, spec %r' % (o, b['new_rows'])
            if bad:
                col.violation('X10:sort_to_match', 'model_names %r, requested %r (%s): %s' % (names, req, spelling, bad), b)
    return col


def run(ctx):
    n = 4 if ctx.thorough else 3
    cfg = ctx.tmp('MC_SortMatch_run.cfg')
    with open(cfg, 'w') as f:
        f.write(open(os.path.join(SPEC, 'MC_SortMatch.cfg')).read().replace('MaxLen = 3', 'MaxLen = %d' % n))
    res = model_check(ctx, 'SortMatch', cfg, timeout=1800, coverage=False)
    em = [b for b in res['emitted'] if isinstance(b, dict) and 'req' in b]
    if not em:
        raise MachineryError('no behaviours emitted')
    r2 = run_tlc(ctx, 'SortMatch', 'MC_SortMatch_reach.cfg', timeout=300, coverage=False, workers=2)
    if 'Invariant NoTruncation is violated' not in r2['out']:
        raise MachineryError('named behaviour SilentTruncation is not reachable in the model')
    ctx.notes['mc_constants'] = 'object and request of 1..%d names' % n + ' over 3 distinct names (duplicates included); 3 spellings of the request'
    ctx.notes['behaviours_emitted'] = len(em)
    ctx.notes['named_behaviours_reachable'] = ['SilentTruncation']
    ctx.notes['named_behaviours_replayed'] = ['LongerIsIndexError', 'OwnNamesNotStripped']
    ctx.sample({'behaviour': em[len(em) // 2]})
    for col in pmap(replay_chunk, em):
        col.merge_into(ctx)
