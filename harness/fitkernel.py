"""C01 / C03 / C04 / C11 -- the aperture-independent fitting kernel.

spec/FitKernel.tla (exact rational kernel) + MC_FitKernel (exhaustive small lattice, property
layer KKT / flag semantics / ranking / invariances, behaviour emission) replayed into real
Fitter.fit on real packages + Trace_FitKernel (recorded random fits, histories on one fitter).
"""
import itertools
import os
import pickle
import random
import shutil
import tempfile
import zlib

import numpy as np

from .common import (model_check, validate_traces, MachineryError, pmap, Collector, dec7, SPEC)
from . import fitworld as fw

NAMES3 = ['m_c', 'm_a', 'm_b']      # package order differs from lexical order


def write_cfg(ctx, name, consts, invariants):
    p = ctx.tmp(name)
    with open(p, 'w') as f:
        f.write('SPECIFICATION Spec\nCONSTANTS\n')
        for k, v in consts.items():
            f.write('  %s = %s\n' % (k, v))
        for inv in invariants:
            f.write('INVARIANT %s\n' % inv)
        f.write('CHECK_DEADLOCK FALSE\n')
    return p


def mc_constants(ctx, nb=3, flags='{0, 1, 2, 3, 4, 9}', ys=None, qs=None, mod=None, cfgmod=None):
    q = not ctx.thorough
    return {
        'NBands': nb,
        'Flags': flags,
        'YS': ys or ('{4, 11}' if q else '{4, 8, 11}'),
        'QS': qs or ('{1, 2}' if q else '{1, 2, 3}'),
        'SampleMod': mod or (8 if q else 16),
        'SampleRes': ctx.seed % (mod or (8 if q else 16)),
        'CfgMod': cfgmod or (3 if q else 1),
    }


class World(object):
    """one real package + fitter per configuration (grid, K pattern, A_V range)"""

    def __init__(self, root, names, grid, K, ulo, uhi, zero_cells=(), kdiv=1.0):
        self.dir = tempfile.mkdtemp(dir=root)
        nb = len(K)
        self.names = names
        self.filts = ['f%d' % j for j in range(nb)]
        self.wavs = fw.band_wavelengths(nb)
        h = zlib.crc32(repr((names, grid, K, ulo, uhi)).encode())
        self.version = 2 if (h // 7) % 3 == 0 else 1          # a third of the worlds are cube-format packages
        fw.build_indep_package(self.dir, names, grid, self.filts, self.wavs, version=self.version, zero_cells=zero_cells)
        # kdiv: every extinction coefficient divided by it and the A_V range multiplied (spec theorem ScaleK): fitted A_V = kdiv x spec
        self.kdiv = kdiv
        self.law = fw.make_extinction(K, self.wavs, variety=h, vfactor=kdiv)
        flist = list(self.filts)
        if self.version == 2 and (h // 21) % 2 == 0:
            # cube-format packages: one filter of the list is given by its wavelength instead of its name (the cube slice is used)
            from astropy import units as u_
            jw = (h // 42) % nb
            flist[jw] = self.wavs[jw] * u_.micron
        self.fitter = fw.make_fitter(self.dir, flist, self.law, ulo * kdiv, uhi * kdiv, use_memmap=False)

    def fit(self, source):
        return self.fitter.fit(source)

    def close(self):
        shutil.rmtree(self.dir, ignore_errors=True)


def group_by_cfg(emitted):
    groups = {}
    for b in emitted:
        k = (b['cfg']['g'], b['cfg']['k'], b['cfg']['r'], len(b['K']))
        groups.setdefault(k, []).append(b)
    return sorted(groups.items())


def names_for(n):
    return NAMES3[:n] if n <= 3 else ['m_%s' % c for c in 'hcafbdge'[:n]]


# ---------------------------------------------------------------------------
# C01 + C04 replay: every model's (av, sc, chi2) [+ rank, ids, predicted fluxes]
# ---------------------------------------------------------------------------
def replay_groups(groups, root, mode, seed):
    col = Collector()
    for key, behs in groups:
        b0 = behs[0]
        names = names_for(len(b0['grid']))
        # C01: a third of the worlds have coefficients 2^13 times smaller (tiny but unequal, as for far-infrared filters)
        kdiv = 8192.0 if (mode == 'C01' and (key[0] + key[1] + key[2] + seed) % 3 == 0) else 1.0
        w = World(root, names, b0['grid'], b0['K'], b0['ulo'], b0['uhi'], kdiv=kdiv)
        try:
            for b in behs:
                replay_one(col, w, b, names, mode, seed)
            if mode in ('C01', 'C03', 'C11'):
                representation_twins(col, w, len(b0['K']), mode, seed + key[0] * 100 + key[1] * 10 + key[2])
            if mode == 'C04':
                dark_model_stage(col, root, b0, behs[:300], names, seed + key[0] + key[1] + key[2])
        finally:
            w.close()
    return col


def dark_model_stage(col, root, b0, behs, names, seed):
    """C04 with a model that ends up with a non-finite chi^2 listed BEFORE finite ones in the package: the same grid with one
    extra model, dark (zero flux) in one band, inserted at a seed-chosen position.  Every spec row must still be found under its
    own name with the package index shifted accordingly, every model listed once, chi^2 non-decreasing with the non-finite last."""
    nm = len(names)
    pos = [0, 0, nm // 2, nm][seed % 4]
    band = seed % len(b0['K'])
    names2 = names[:pos] + ['zz_dark'] + names[pos:]
    grid2 = b0['grid'][:pos] + [[0] * len(b0['K'])] + b0['grid'][pos:]
    w = World(root, names2, grid2, b0['K'], b0['ulo'], b0['uhi'], zero_cells={(pos, band)})
    try:
        for b in behs:
            if b['rows'][0].get('sing', False) or b['src']['flag'][band] not in (1, 4):
                continue                      # the dark band must be fitted for the chi^2 of the dark model to be non-finite
            rows2 = b['rows'][:pos] + [{'sing': True}] + b['rows'][pos:]
            obs = fw.project_info(w.fit(fw.make_source(b['src'])))
            col.replayed += 1
            bad = fw.compare_fit(obs, names2, rows2, check_rank=True, check_pred=True)
            # (what chi^2 the dark model itself gets is not C04's business; compare_fit has checked that every model is listed once
            # under its own package index, that chi^2 is non-decreasing with NaN last, and every spec row by name)
            if bad:
                col.violation('C04:dark_model', 'package with a dark model at index %d (zero flux in band %d): %s' % (pos, band, '; '.join(bad[:4])),
                              dict(describe(b), dark_index=pos, dark_band=band, observed=obs))
                break
    finally:
        w.close()


def representation_twins(col, w, nb, mode, seed):
    """A fit is a function of the VALUES it is given: the same photometry handed over as float arrays, integer arrays or plain
    lists must give the same result.  (Sources with integer-valued fluxes and errors are off the lattice, so this is a relation
    between runs -- like the other C11 invariances -- not a comparison with spec rows.)"""
    from sedfitter.source import Source
    rng = random.Random(seed + 4242)
    for _ in range(4):
        flags = [rng.choice([1, 1, 1, 2, 3]) for _ in range(nb)]
        if sum(1 for f in flags if f == 1) < 2:
            flags[0] = flags[1] = 1
        flux = [rng.randint(1, 5000) for _ in range(nb)]
        err = [max(1, f // rng.randint(3, 20)) if fl == 1 else rng.choice([0, 1]) for f, fl in zip(flux, flags)]
        obs = {}
        for form in ('float', 'int', 'list'):
            s = Source()
            s.name = 'twin'
            s.x = 0.0
            s.y = 0.0
            s.valid = np.array(flags) if form != 'list' else list(flags)
            if form == 'float':
                s.flux, s.error = np.array(flux, dtype=float), np.array(err, dtype=float)
            elif form == 'int':
                s.flux, s.error = np.array(flux, dtype=np.int64), np.array(err, dtype=np.int64)
            else:
                s.flux, s.error = list(flux), list(err)
            try:
                obs[form] = fw.project_info(w.fit(s))
            except Exception as e:
                obs[form] = repr(e)
            col.replayed += 1
        for form in ('int', 'list'):
            a, b_ = obs['float'], obs[form]
            if isinstance(a, str) or isinstance(b_, str):
                same = (a == b_) if (isinstance(a, str) and isinstance(b_, str)) else False
            else:
                same = same_obs(a, b_)
            if not same:
                col.violation('%s:representation_twin' % mode, 'flags %r fluxes %r errors %r given as %s arrays fit differently from the same values given as float arrays'
                              % (flags, flux, err, 'integer' if form == 'int' else 'plain list'),
                              {'flags': flags, 'flux': flux, 'error': err, 'as_float': obs['float'], 'as_' + form: obs[form]})
                break


def describe(b):
    return {'src': b['src'], 'K': b['K'], 'av_range': [b['ulo'] / 4.0, b['uhi'] / 4.0],
            'grid_log10_mJy': [[e / 4.0 for e in m] for m in b['grid']]}


def replay_one(col, w, b, names, mode, seed):
    sing = b['rows'][0].get('sing', False)
    if mode in ('C01', 'C04'):
        s = fw.make_source(b['src'])
        info = w.fit(s)
        col.replayed += 1
        if int(info.source.n_data) != b['ndata']:
            col.violation('%s:n_data' % mode, 'n_data %r, spec %r for %r' % (info.source.n_data, b['ndata'], b['src']), describe(b))
        if sing:
            return
        obs = fw.project_info(info)
        if w.kdiv != 1.0:
            obs['av'] = [a / w.kdiv for a in obs['av']]
        bad = fw.compare_fit(obs, names, b['rows'], check_rank=(mode == 'C04'), check_pred=(mode == 'C04'))
        if bad:
            col.violation('%s:fit' % mode, '; '.join(bad[:6]),
                          dict(describe(b), expected_rows=b['rows'], observed=obs, mismatches=bad))
    elif mode == 'C03':
        replay_c03(col, w, b, names)
    elif mode == 'C11':
        replay_c11(col, w, b, names, seed)


def same_obs(a, b, boundary=()):
    """same fit for every model, matched by model name (tie order is free); chi2 of a model
    whose best fit meets a limit exactly (spec boundary flag) may carry the penalty or not"""
    if sorted(a['names']) != sorted(b['names']):
        return False
    ib = {n: i for i, n in enumerate(b['names'])}
    for i, n in enumerate(a['names']):
        j = ib[n]
        if a['ids'][i] != b['ids'][j]:
            return False
        for k in ('av', 'sc', 'chi2'):
            if k == 'chi2' and n in boundary:
                continue
            if not fw.fclose(a[k][i], b[k][j], 1e-9, 1e-9):
                return False
    return True


def replay_c03(col, w, b, names):
    """flag semantics: the emitted source is run (a) as is, (b) with every junk token in the
    ignored bands, (c) with flags 1<->4 swapped, (d) ignored bands re-flagged 0<->9; all must
    agree with each other and with the spec rows."""
    src = b['src']
    sing = b['rows'][0].get('sing', False)
    ignored = [j for j, f in enumerate(src['flag']) if f in (0, 9)]
    info0 = w.fit(fw.make_source(src))
    base = fw.project_info(info0)
    col.replayed += 1
    if int(info0.source.n_data) != b['ndata']:
        col.violation('C03:n_data', 'n_data %r, spec %r (only flags 1 and 4 count) for flags %r' % (info0.source.n_data, b['ndata'], src['flag']), describe(b))
        return
    if not sing:
        bad = fw.compare_fit(base, names, b['rows'])
        if bad:
            col.violation('C03:fit', '; '.join(bad[:6]), dict(describe(b), expected_rows=b['rows'], observed=base))
            return
    bnd = set() if sing else {names[m] for m in range(len(names)) if b['rows'][m].get('boundary')}
    variants = []
    if ignored:
        for tok in ('neg999', 'zero', 'tiny', 'huge'):
            variants.append(('junk=%s' % tok, fw.make_source(src, junk=tok)))
        sw = dict(src)
        sw['flag'] = [9 - f if f in (0, 9) else f for f in src['flag']]
        variants.append(('swap0/9', fw.make_source(sw, junk='neg999')))
    if any(f in (1, 4) for f in src['flag']):
        variants.append(('flag1<->4', fw.make_source(src, flag1_as=[5 - f if f in (1, 4) else f for f in src['flag']])))
        variants.append(('all-as-4', fw.make_source(src, flag1_as=4)))
    for label, s in variants:
        obs = fw.project_info(w.fit(s))
        col.replayed += 1
        ok = same_obs(obs, base, bnd) if not sing else True
        if not sing and not ok:
            vf = s.valid.tolist()
            poisoned = any(vf[j] == 9 and s.flux[j] <= 0 for j in range(len(vf))) and all(np.isnan(obs['chi2']))
            sig = 'C03:flag9_nonpositive_payload_gives_nan' if poisoned else 'C03:variant:%s' % label
            col.violation(sig,
                          'fit changes when only ignored/equivalent content changes (%s): flags %r; base av=%r chi2=%r, variant av=%r chi2=%r'
                          % (label, src['flag'], base['av'], base['chi2'], obs['av'], obs['chi2']),
                          dict(describe(b), variant=label, variant_flux=s.flux.tolist(), variant_error=s.error.tolist(),
                               variant_flags=s.valid.tolist(), base=base, observed=obs))


def replay_c11(col, w, b, names, seed):
    """history freedom + source immutability on the shared fitter; band/model permutation and
    flux scaling are replayed on permuted packages by replay_c11_perm."""
    s = fw.make_source(b['src'])
    before = pickle.dumps(s.__getstate__(), 2)
    info = w.fit(s)
    col.replayed += 1
    after = pickle.dumps(s.__getstate__(), 2)
    if before != after:
        col.violation('C11:source_mutated', 'Fitter.fit modified the source it was given', describe(b))
    obs = fw.project_info(info)
    if not b['rows'][0].get('sing', False):
        bad = fw.compare_fit(obs, names, b['rows'])
        if bad:
            col.violation('C11:fit_after_history', 'after %d earlier fits on the same fitter: %s' % (col.replayed - 1, '; '.join(bad[:4])),
                          dict(describe(b), observed=obs, expected_rows=b['rows']))


def replay_c11_perm(behs, root, seed):
    """permute bands and models of the whole world; scale all fluxes by 10^(c/4)"""
    col = Collector()
    rng = random.Random(seed + 17)
    b0 = behs[0]
    nb = len(b0['K'])
    nm = len(b0['grid'])
    names = names_for(nm)
    for _ in range(2):
        pb = list(range(nb))
        rng.shuffle(pb)
        pm = list(range(nm))
        rng.shuffle(pm)
        grid = [[b0['grid'][m][j] for j in pb] for m in pm]
        w = World(root, [names[m] for m in pm], grid, [b0['K'][j] for j in pb], b0['ulo'], b0['uhi'])
        try:
            for b in behs:
                if b['rows'][0].get('sing', False):
                    continue
                src = {k: [b['src'][k][j] for j in pb] for k in ('flag', 'Y', 'W', 'P')}
                rows = [dict(b['rows'][m], pred20=[b['rows'][m]['pred20'][j] for j in pb]) for m in pm]
                c = rng.choice([-16, -8, -2, 2, 8, 16])
                for shift in (0, c):
                    obs = fw.project_info(w.fit(fw.make_source(src, flux_scale_dex4=shift)))
                    col.replayed += 1
                    bad = fw.compare_fit(obs, [names[m] for m in pm], rows, check_rank=True, check_pred=True,
                                         sc_shift=-shift / 8.0)
                    if bad:
                        col.violation('C11:perm' if shift == 0 else 'C11:scale',
                                      'bands permuted by %r, models by %r, fluxes x10^(%d/4): %s' % (pb, pm, shift, '; '.join(bad[:4])),
                                      dict(describe(b), band_perm=pb, model_perm=pm, shift_quarter_dex=shift, observed=obs))
        finally:
            w.close()
    return col


# ---------------------------------------------------------------------------
# recorded traces
# ---------------------------------------------------------------------------
def rand_world(rng, wide):
    nb = 3 if wide else rng.choice([2, 3, 4, 4])
    nm = rng.randint(1, 8)
    lim = 50 if wide else 18
    while True:
        K = [rng.randint(0, 4) for _ in range(nb)]
        if len(set(K)) > 1:
            break
    grid = [[rng.randint(-lim, lim) for _ in range(nb)] for _ in range(nm)]
    if nm > 2 and rng.random() < 0.3:
        grid[1] = list(grid[0])               # exact tie
    lo = rng.choice([-160, -8, 0, 0, 2, 6])
    hi = lo + rng.choice([0, 2, 8, 40, 160, 400])
    return nb, nm, K, grid, lo, hi


def rand_source(rng, nb, wide):
    lim = 50 if wide else 18
    flags = [rng.choice([0, 1, 1, 1, 2, 3, 4, 4, 9]) for _ in range(nb)]
    return {'flag': flags, 'Y': [rng.randint(-lim, lim) for _ in range(nb)],
            'W': [rng.choice([1, 4]) for _ in range(nb)], 'P': [rng.choice([0, 1, 2, 6, -1]) for _ in range(nb)]}


def record_chunk(seeds, root, wide_every=4):
    out = []
    for sd in seeds:
        rng = random.Random(sd)
        wide = (sd % wide_every == 0)
        nb, nm, K, grid, lo, hi = rand_world(rng, wide)
        names = names_for(nm)
        w = World(root, names, grid, K, lo, hi)
        try:
            tr = [{'ev': 'Load', 'K': K, 'ulo': lo, 'uhi': hi, 'grid': grid}]
            pool = [rand_source(rng, nb, wide) for _ in range(rng.randint(1, 3))]
            for _ in range(rng.randint(1, 6)):
                src = rng.choice(pool)
                info = w.fit(fw.make_source(src, junk=rng.choice(['ordinary', 'tiny', 'huge'])))
                tr.append(fit_event(src, info, names))
            out.append(tr)
        finally:
            w.close()
    return out


def fit_event(src, info, names):
    rows = []
    for i in range(len(info.chi2)):
        nm = str(info.model_name[i]).strip()
        chi = float(info.chi2[i])
        isnan = any(np.isnan(x) for x in (chi, float(info.av[i]), float(info.sc[i])))
        big = int(round(chi / 1e30)) if (not isnan and chi >= 5e29) else 0
        rows.append({'m': names.index(nm) + 1 if nm in names else 0, 'id': int(info.model_id[i]),
                     'nan': 1 if isnan else 0,
                     'av': dec7(0 if isnan else info.av[i]), 'sc': dec7(0 if isnan else info.sc[i]),
                     'chi': dec7(0 if (isnan or big) else chi), 'big': big,
                     'haspred': 0 if info.model_fluxes is None else 1,
                     'pred': [] if info.model_fluxes is None else [dec7(0 if np.isnan(x) else x) for x in info.model_fluxes[i]]})
    return {'ev': 'Fit', 'flag': src['flag'], 'Y': src['Y'], 'W': src['W'], 'P': src['P'],
            'ndata': int(info.source.n_data), 'rows': rows}


def traces(ctx, n, pid):
    seeds = [ctx.seed * 100003 + i for i in range(n)]
    root = ctx.mkdtemp('tw')
    trs = []
    for part in pmap(lambda c: record_chunk(c, root), seeds):
        trs.extend(part)
    ctx.sample({'trace': trs[0]})
    rejected = validate_traces(ctx, 'Trace_FitKernel', 'Trace_FitKernel.cfg', trs, chunk=1000)
    for idx, viol in rejected[:10]:
        clause = viol[0][1] if viol else '?'
        ctx.violation('%s:trace:%s' % (pid, clause), 'recorded Fitter.fit history rejected by Trace_FitKernel: %r' % (viol,),
                      {'trace': trs[idx], 'viol': viol})


# ---------------------------------------------------------------------------
def run_mc(ctx, name, consts, invariants, timeout=3000):
    cfg = write_cfg(ctx, name, consts, invariants)
    res = model_check(ctx, 'MC_FitKernel', cfg, timeout=timeout, coverage=False)
    ctx.notes.setdefault('mc_constants', {})[name] = consts
    return res


def do_replay(ctx, emitted, mode):
    groups = group_by_cfg(emitted)
    root = ctx.mkdtemp('w')
    for col in pmap(lambda chunk: replay_groups(chunk, root, mode, ctx.seed), groups, chunks_per_proc=1):
        col.merge_into(ctx)
    return groups


def four_band(ctx, name, invariants, cfgmod_quick=5):
    """4-band sources over flags {1, 2, 3} with two DIFFERENT non-zero confidences: the smallest sources that can carry a lower
    AND an upper limit (or two limits of one kind) next to a non-singular regression"""
    q = not ctx.thorough
    mod = (16 if cfgmod_quick == 5 else 8) if q else 4
    c2 = mc_constants(ctx, nb=4, flags='{1, 2, 3}', ys='{4, 11}', qs='{2, 4}', mod=mod, cfgmod=(cfgmod_quick if q else 3))
    c2['SampleRes'] = ctx.seed % mod
    r2 = run_mc(ctx, name, c2, invariants)
    ctx.notes['four_band_behaviours'] = len(r2['emitted'])
    return r2['emitted']


def run_C01(ctx):
    res = run_mc(ctx, 'c01.cfg', mc_constants(ctx), ['KKTInv', 'BeatsInv', 'ChiIsMinPlusPenalties', 'ScaleK', 'EmitInv'])
    em = res['emitted'] + four_band(ctx, 'c01_n4.cfg', ['KKTInv', 'ChiIsMinPlusPenalties', 'EmitInv'])
    if not em:
        raise MachineryError('no behaviours emitted')
    ctx.sample({'behaviour': em[len(em) // 2]})
    ctx.notes['behaviours_emitted'] = len(em)
    ctx.notes['behaviours_nonsingular'] = sum(1 for b in em if not b['rows'][0].get('sing'))
    do_replay(ctx, em, 'C01')
    traces(ctx, 300 if not ctx.thorough else 3000, 'C01')
    ctx.assumptions += ['inputs on the quarter-dex lattice (DESIGN.md section 3); non-singular regressions only',
                        'a limit exactly met by the best fit admits either chi^2 (boundary flag computed by the spec)']


def run_C04(ctx):
    res = run_mc(ctx, 'c04.cfg', mc_constants(ctx), ['RankExists', 'PredMatches', 'EmitInv'])
    em = res['emitted'] + four_band(ctx, 'c04_n4.cfg', (['PredMatches', 'EmitInv'] if not ctx.thorough else ['RankExists', 'PredMatches', 'EmitInv']), cfgmod_quick=9)
    ctx.sample({'behaviour': em[len(em) // 3]})
    ctx.notes['behaviours_emitted'] = len(em)
    do_replay(ctx, em, 'C04')
    traces(ctx, 300 if not ctx.thorough else 3000, 'C04')
    from .c02 import dist_stage
    dist_stage(ctx, 'C04', 48 if not ctx.thorough else 8)          # rows / predicted fluxes in the distance-dependent mode
    from .x02 import stage as resolved_stage
    resolved_stage(ctx, 'C04')                                      # models that end up with infinite chi^2 (remove_resolved)


def run_C03(ctx):
    q = not ctx.thorough
    consts = mc_constants(ctx, qs=('{1, 3}' if q else '{1, 2, 3}'), ys='{4, 11}', mod=(12 if q else 8), cfgmod=(5 if q else 3))
    res = run_mc(ctx, 'c03.cfg', consts,
                 ['IgnoredIrrelevant', 'LimitNeverInLSQ', 'ZeroConfidenceIsUnused', 'PenaltyOnlyOnForbiddenSide',
                  'Flag4EqFlag1', 'EmitInv'])
    em = res['emitted']
    # n = 4 and n = 5 flag vectors: emitted without the relational invariants
    for nb, ys, qs, mod in ((4, '{4, 11}', '{2}', 16 if q else 2), (5, '{6}', '{2}', 6 if q else 1)):
        c2 = mc_constants(ctx, nb=nb, ys=ys, qs=qs, mod=mod, cfgmod=(5 if q else 3))
        c2['SampleRes'] = ctx.seed % mod
        r2 = run_mc(ctx, 'c03_n%d.cfg' % nb, c2, ['PenaltyOnlyOnForbiddenSide', 'EmitInv'])
        em = em + r2['emitted']
    ctx.sample({'behaviour': em[len(em) // 2]})
    ctx.notes['behaviours_emitted'] = len(em)
    ctx.notes['flag_vectors_replayed'] = len({tuple(b['src']['flag']) for b in em})
    do_replay(ctx, em, 'C03')
    traces(ctx, 200 if q else 2000, 'C03')
    from .c02 import dist_stage
    dist_stage(ctx, 'C03', 32 if q else 8, formats=(('perfile', False), ('cube', False)))   # flag semantics in the distance-dependent mode


def run_C11(ctx):
    q = not ctx.thorough
    consts = mc_constants(ctx, mod=(16 if q else 8))
    res = run_mc(ctx, 'c11.cfg', consts, ['PermuteBands', 'ScaleFlux', 'EmitInv'])
    em = res['emitted'] + four_band(ctx, 'c11_n4.cfg', ['PermuteBandsSome' if not ctx.thorough else 'PermuteBands', 'EmitInv'], cfgmod_quick=9)
    ctx.sample({'behaviour': em[len(em) // 2]})
    ctx.notes['behaviours_emitted'] = len(em)
    # history: all behaviours of one configuration go through ONE fitter, in seed-shuffled order
    rng = random.Random(ctx.seed)
    rng.shuffle(em)
    groups = do_replay(ctx, em, 'C11')
    root = ctx.mkdtemp('wp')
    for col in pmap(lambda chunk: _perm_chunk(chunk, root, ctx.seed), groups, chunks_per_proc=1):
        col.merge_into(ctx)
    traces(ctx, 300 if q else 3000, 'C11')
    from .c02 import dist_stage
    dist_stage(ctx, 'C11', 48 if q else 8)          # histories on one distance-dependent fitter


def _perm_chunk(groups, root, seed):
    col = Collector()
    for key, behs in groups:
        c = replay_c11_perm(behs[:400], root, seed + key[0] * 100 + key[1] * 10 + key[2])
        col.replayed += c.replayed
        col.viol += c.viol
    return col
