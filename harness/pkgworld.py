"""Real model packages (per-file and cube format) from an abstract description.

An abstract package:
  names      model names in PARAMETER-TABLE order (package order)
  wav        wavelengths (micron), increasing
  aps        aperture radii in AU, or None
  val(m, a, w), unc(m, a, w)   cell functions (m: index into names, a: aperture index, w: index
                                into wav, i.e. wavelength RANK)
  stored     per model 'asc' | 'desc': spectral order in which the SED file stores wavelength
  fname      per model: file stem (directory listing order = sort order of these)
"""
import os

import numpy as np

from . import fitworld as fw


def write_parameters(d, names, pad=True, extra_cols=2, values=None):
    from astropy.table import Table
    t = Table()
    t['MODEL_NAME'] = np.array([(n + '   ' if (pad and i % 2) else n) for i, n in enumerate(names)], dtype='S30')
    for c in range(extra_cols):
        t['par%d' % (c + 1)] = np.array([(values[c][n] if values else (10.0 ** c) * (1.0 + names.index(n))) for n in names], dtype=float)
    t.write(os.path.join(d, 'parameters.fits'))


def sed_object(name, wav, aps, val, unc, order, flux_unit='mJy', distance_kpc=1.0, ap_unit='au'):
    """SED object with the spectral axis supplied in increasing ('asc') or decreasing wavelength"""
    from astropy import units as u
    from sedfitter.sed import SED
    s = SED()
    s.name = name
    s.distance = distance_kpc * u.kpc
    idx = list(range(len(wav)))
    if order == 'desc':
        idx = idx[::-1]
    s.wav = np.array([wav[i] for i in idx], dtype=float) * u.micron
    s.nu = s.wav.to(u.Hz, equivalencies=u.spectral())
    na = 1 if aps is None else len(aps)
    s.apertures = None if aps is None else (np.array(aps, dtype=float) * u.au).to(getattr(u, ap_unit))
    if flux_unit == 'nufnu':
        # the same SED held as nu F_nu in erg/cm2/s (the storage of the original model packages); val/unc are in mJy
        fac = (s.nu.to(u.Hz).value * 1e-26)[np.newaxis, :]
        s.flux = np.array([[val(a, w) for w in idx] for a in range(na)], dtype=float) * fac * u.erg / u.cm ** 2 / u.s
        s.error = np.array([[unc(a, w) for w in idx] for a in range(na)], dtype=float) * fac * u.erg / u.cm ** 2 / u.s
        return s
    unit = u.Unit(flux_unit)
    s.flux = np.array([[val(a, w) for w in idx] for a in range(na)], dtype=float) * unit
    s.error = np.array([[unc(a, w) for w in idx] for a in range(na)], dtype=float) * unit
    return s


def write_sed_raw(path, name, wav, aps, val, unc, order, legacy_units=True, flux_unit='mJy'):
    """SED file written directly with astropy.io.fits following docs/creating_model_packages.rst
    (independent of SED.write), spectral axis stored in the given order"""
    from astropy.io import fits
    idx = list(range(len(wav)))
    if order == 'desc':
        idx = idx[::-1]
    w = np.array([wav[i] for i in idx], dtype=float)
    nu = 299792458.0 / (w * 1e-6)
    na = 1 if aps is None else len(aps)
    hdu0 = fits.PrimaryHDU()
    hdu0.header['VERSION'] = 1
    hdu0.header['MODEL'] = name
    hdu0.header['IMAGE'] = False
    hdu0.header['WAVLGHTS'] = True
    hdu0.header['APERTURS'] = True
    hdu0.header['SEDS'] = True
    hdu0.header['NWAV'] = len(w)
    hdu0.header['NAP'] = na
    c1 = fits.Column(name='WAVELENGTH', format='1D', array=w, unit='MICRONS' if legacy_units else 'um')
    c2 = fits.Column(name='FREQUENCY', format='1D', array=nu, unit='HZ' if legacy_units else 'Hz')
    hdu1 = fits.BinTableHDU.from_columns([c1, c2], name='WAVELENGTHS')
    a = np.array([1e-30] if aps is None else aps, dtype=float)
    hdu2 = fits.BinTableHDU.from_columns([fits.Column(name='APERTURE', format='1D', array=a, unit='cm' if aps is None else 'AU')], name='APERTURES')
    fl = np.array([[val(ai, wi) for wi in idx] for ai in range(na)], dtype=float)
    er = np.array([[unc(ai, wi) for wi in idx] for ai in range(na)], dtype=float)
    ustr = 'MJY' if legacy_units else 'mJy'
    if flux_unit == 'nufnu':          # nu F_nu in erg/cm2/s, as the original model packages store it
        fl = fl * (nu * 1e-26)[np.newaxis, :]
        er = er * (nu * 1e-26)[np.newaxis, :]
        ustr = 'ergs/cm^2/s' if legacy_units else 'erg cm-2 s-1'
    f1 = fits.Column(name='TOTAL_FLUX', format='%dD' % len(w), array=fl, unit=ustr)
    f2 = fits.Column(name='TOTAL_FLUX_ERR', format='%dD' % len(w), array=er, unit=ustr)
    hdu3 = fits.BinTableHDU.from_columns([f1, f2], name='SEDS')
    fits.HDUList([hdu0, hdu1, hdu2, hdu3]).writeto(path)


def build_perfile(d, names, wav, aps, val, unc, stored=None, fnames=None, writer='lib', aperture_dependent=None,
                  logd_step=0.02, pad=True, par_values=None, ap_unit='au', wav_of=None):
    """per-file package: models.conf, seds/<fname>_sed.fits, parameters.fits (rows in `names` order)"""
    os.makedirs(os.path.join(d, 'seds'))
    apdep = (aps is not None) if aperture_dependent is None else aperture_dependent
    fw.write_conf(d, aperture_dependent=apdep, logd_step=logd_step)
    wav0 = wav
    for m, nm in enumerate(names):
        order = (stored[m] if stored else 'desc')
        stem = fnames[m] if fnames else nm
        wav = wav_of(m) if wav_of else wav0          # every SED file may come on its own wavelength grid
        p = os.path.join(d, 'seds', stem + '_sed.fits')
        if writer == 'lib':
            sed_object(nm, wav, aps, lambda a, w: val(m, a, w), lambda a, w: unc(m, a, w), order, ap_unit=ap_unit).write(p)
        else:
            write_sed_raw(p, nm, wav, aps, lambda a, w: val(m, a, w), lambda a, w: unc(m, a, w), order,
                          legacy_units=(writer == 'raw_legacy'))
    write_parameters(d, names, pad=pad, values=par_values)


def cube_object(names, wav, aps, val, unc, order, with_unc=True, flux_unit='mJy', distance_kpc=1.0, ap_unit='au', unc_twin=False):
    from astropy import units as u
    from sedfitter.sed import SEDCube
    c = SEDCube()
    c.names = np.array(names)
    c.distance = distance_kpc * u.kpc
    idx = list(range(len(wav)))
    if order == 'desc':
        idx = idx[::-1]
    c.wav = np.array([wav[i] for i in idx], dtype=float) * u.micron
    na = 1 if aps is None else len(aps)
    c.apertures = None if aps is None else (np.array(aps, dtype=float) * u.au).to(getattr(u, ap_unit))
    unit = u.Unit(flux_unit)
    c.val = np.array([[[val(m, a, w) for w in idx] for a in range(na)] for m in range(len(names))], dtype=float) * unit
    if with_unc:
        c.unc = np.array([[[unc(m, a, w) for w in idx] for a in range(na)] for m in range(len(names))], dtype=float) * unit
        if unc_twin and flux_unit in ('mJy', 'Jy'):
            c.unc = c.unc.to(u.Jy if flux_unit == 'mJy' else u.mJy)        # the uncertainties may be held in another unit than the values
    return c


def build_cube(d, names, wav, aps, val, unc, order='desc', aperture_dependent=None, logd_step=0.02, pad=False, par_values=None,
               table_names=None, flux_unit='mJy', ap_unit='au', unc_twin=False):
    """cube package: models.conf (version 2), flux.fits, parameters.fits"""
    apdep = (aps is not None) if aperture_dependent is None else aperture_dependent
    fw.write_conf(d, aperture_dependent=apdep, logd_step=logd_step, version=2)
    cube_object(names, wav, aps, val, unc, order, flux_unit=flux_unit, ap_unit=ap_unit, unc_twin=unc_twin).write(os.path.join(d, 'flux.fits'))
    write_parameters(d, table_names or names, pad=pad, values=par_values)
