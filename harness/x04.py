"""X04 (extension) -- utils/interpolate.py (check_bounds + interp1d_fast) and utils/integrate.py (integrate_subset, integrate):
spec/UtilNum.tla transcribes them with Python's index semantics and relates them to PwLin's exact evaluation / integral;
every table within the constants x every query / window on the half-integer lattice is replayed into the real functions."""
import numpy as np

from .common import model_check, MachineryError, pmap, Collector
from .fitworld import frac, fclose


def outcome(fn):
    try:
        v = fn()
    except Exception as e:
        return ('err', repr(e))
    v = np.asarray(v, dtype=float)
    return ('val', v)


def replay_chunk(behs):
    from sedfitter.utils.interpolate import interp1d_fast
    from sedfitter.utils.integrate import integrate_subset, integrate
    col = Collector()
    for b in behs:
        x = np.array(b['x'], dtype=float)
        y = np.array(b['y'], dtype=float)
        qs = [(b['q2lo'] + i) / 2.0 for i in range(len(b['interp']))]
        bad = None
        # scalar queries, bounds_error=True ; and bounds_error=False with a non-default fill value
        for q, e, enb in zip(qs, b['interp'], b['interp_nb']):
            col.replayed += 1
            o = outcome(lambda: interp1d_fast(x, y, q))
            if e['k'] == 'err':
                if o[0] != 'err':
                    bad = 'interp1d_fast(x, y, %g) returned %r, spec: refused' % (q, o[1])
            elif o[0] == 'err' or not fclose(float(o[1]), float(frac(e['v'])), 1e-12, 1e-12):
                bad = 'interp1d_fast(x, y, %g) gives %r, spec %r' % (q, o[1], float(frac(e['v'])))
            if bad:
                break
            # array form [q, x[0]] with bounds_error=False, fill_value=7: outside -> 7, inside -> value
            o = outcome(lambda: interp1d_fast(x, y, np.array([q, x[0]]), bounds_error=False, fill_value=7.0))
            want = 7.0 if enb['k'] == 'fill' else float(frac(enb['v']))
            if o[0] == 'err' or o[1].shape != (2,) or not fclose(o[1][0], want, 1e-12, 1e-12) or not fclose(o[1][1], y[0], 1e-12, 1e-12):
                bad = 'interp1d_fast(x, y, [%g, x0], bounds_error=False, fill_value=7) gives %r, spec [%r, %r]' % (q, o[1], want, y[0])
                break
            # named deviation ScalarIgnoresFill: the scalar form returns NaN outside whatever fill_value is
            o = outcome(lambda: interp1d_fast(x, y, q, bounds_error=False, fill_value=7.0))
            if enb['k'] == 'fill' and not (o[0] == 'val' and np.isnan(o[1])):
                col.extra['scalar_fill_honoured'] = col.extra.get('scalar_fill_honoured', 0) + 1   # observation only
        if not bad:
            for i, a in enumerate(qs):
                for j, bq in enumerate(qs):
                    e = b['intsub'][i][j]
                    for rev in (False, True):
                        col.replayed += 1
                        xx, yy = (x[::-1].copy(), y[::-1].copy()) if rev else (x.copy(), y.copy())
                        o = outcome(lambda: integrate_subset(xx, yy, a, bq))
                        if e['k'] == 'err':
                            if o[0] != 'err':
                                bad = 'integrate_subset(%s, [%g, %g]) returned %r, spec: refused (window outside the table)' % ('reversed x' if rev else 'x', a, bq, o[1])
                        elif o[0] == 'err' or not fclose(float(o[1]), float(frac(e['v'])), 1e-12, 1e-12):
                            bad = 'integrate_subset(%s, [%g, %g]) gives %r, spec %r' % ('reversed x' if rev else 'x', a, bq, o[1], float(frac(e['v'])))
                        if not np.array_equal(xx, x[::-1] if rev else x) or not np.array_equal(yy, y[::-1] if rev else y):
                            bad = 'integrate_subset modified its input arrays'
                        if bad:
                            break
                    if bad:
                        break
                if bad:
                    break
        if not bad:
            col.replayed += 1
            o = outcome(lambda: integrate(x.copy(), y.copy()))
            if o[0] == 'err' or not fclose(float(o[1]), float(frac(b['whole'])), 1e-12, 1e-12):
                bad = 'integrate(x, y) gives %r, spec %r' % (o[1], float(frac(b['whole'])))
        if bad:
            col.violation('X04:value', 'table x=%r y=%r: %s' % (b['x'], b['y'], bad), b)
    return col


def run(ctx):
    q = not ctx.thorough
    cfg = ctx.tmp('MC_UtilNum_run.cfg')
    inv = ['InterpMatches', 'ScalarIgnoresFill', 'ArrayIsPointwise', 'ArrayRefusesAnyOutside', 'FirstKnotExact', 'IntSubMatches',
           'IntSubSymmetric', 'EmptyWindowIsZeroEvenOutside', 'WholeIsIntegral', 'EmitInv'] + ([] if q else ['IntSubAdditive'])
    mod = 4 if q else 1
    with open(cfg, 'w') as f:
        f.write('SPECIFICATION Spec\nCONSTANTS\n  XNodes = {1, 2, 3, 5, 6}\n  YVals = {0, 1, 3}\n  YOff = 1\n  MaxN = %d\n  Q2Lo = 0\n  Q2Hi = 14\n'
                '  SampleMod = %d\n  SampleRes = %d\n' % (3 if q else 4, mod, ctx.seed % mod))
        for i in inv:
            f.write('INVARIANT %s\n' % i)
        f.write('CHECK_DEADLOCK FALSE\n')
    res = model_check(ctx, 'UtilNum', cfg, timeout=1800, coverage=False)
    em = [b for b in res['emitted'] if isinstance(b, dict) and 'intsub' in b]
    if not em:
        raise MachineryError('no behaviours emitted')
    ctx.notes['mc_constants'] = 'tables of 2..%d nodes out of {1,2,3,5,6} with values in {-1,0,2}; queries and windows on the half-integer lattice 0..7 (below, on, between, above the nodes), x in either storage order' % (3 if q else 4)
    ctx.notes['behaviours_emitted'] = len(em)
    ctx.sample({'behaviour': {k: em[0][k] for k in ('x', 'y', 'whole')}})
    for col in pmap(replay_chunk, em):
        col.merge_into(ctx)
    ctx.assumptions += ['named behaviours of the code, modelled as they are: a scalar query outside the table with bounds_error=False returns NaN '
                        'whatever fill_value is (the array form returns fill_value); an empty window returns 0 before any bounds check']
