"""X07 (extension) -- the life of a package's convolved/ directory (spec/ConvDir.tla): histories of convolve_model_dir /
convolve_model_dir_monochromatic calls with and without overwrite, interleaved with changes of the SEDs, replayed on real
packages of both formats.  After every call the outcome (ok / refused) and, for every output file, the generation of the SEDs
it was computed from (decoded from its fluxes) are compared with the spec."""
import json
import math
import os
import shutil
import tempfile
import zlib

import numpy as np

from .common import model_check, run_tlc, validate_traces, MachineryError, pmap, Collector
from . import fitworld as fw
from . import pkgworld as pw
from .c06 import make_filter

GX = [4, 8, 16]                                   # SED frequency grid (lattice units); wavelengths 12/g
FILT = {'A': ([3, 5, 9], [1, 2, 1]), 'B': ([7, 12, 17], [1, 1, 2])}
NAMES = ['mod_b', 'mod_a']
FILES = ['A', 'B', 'MO001', 'MO002', 'MO003']


def write_seds(d, fmt, gen):
    wav = sorted(12.0 / g for g in GX)
    val = lambda m, a, w: (10.0 ** gen) * (1.0 + m + 2.0 * w)
    unc = lambda m, a, w: 0.1 * val(m, a, w)
    if fmt == 'perfile':
        for m, nm in enumerate(NAMES):
            pw.sed_object(nm, wav, None, lambda a, w: val(m, a, w), lambda a, w: unc(m, a, w), 'desc').write(
                os.path.join(d, 'seds', nm + '_sed.fits'), overwrite=True)
    else:
        pw.cube_object(NAMES, wav, None, val, unc, 'desc').write(os.path.join(d, 'flux.fits'), overwrite=True)


def new_package(root, fmt):
    d = tempfile.mkdtemp(dir=root)
    if fmt == 'perfile':
        os.makedirs(os.path.join(d, 'seds'))
    fw.write_conf(d, aperture_dependent=False, version=(1 if fmt == 'perfile' else 2))
    pw.write_parameters(d, NAMES, pad=False)
    write_seds(d, fmt, 1)
    return d


def filters(names):
    return [make_filter(FILT[n][0], FILT[n][1], name=n) for n in names]


def snapshot(d, ref):
    """file -> generation (0 absent), decoded from the flux of the first model relative to the generation-1 reference"""
    from sedfitter.convolved_fluxes import ConvolvedFluxes
    out = {}
    for f in FILES:
        p = os.path.join(d, 'convolved', f + '.fits')
        if not os.path.exists(p):
            out[f] = 0
            continue
        c = ConvolvedFluxes.read(p)
        names = [str(x).strip() for x in c.model_names]
        v = float(c.flux[names.index(NAMES[0]), 0].value)
        if ref is None:
            out[f] = v
        else:
            g = 1 + math.log10(v / ref[f])
            out[f] = int(round(g)) if abs(g - round(g)) < 1e-6 else g
    return out


def reference(root, fmt):
    """generation-1 flux of every output file, from a scratch package"""
    from sedfitter.convolve import convolve_model_dir, convolve_model_dir_monochromatic
    d = new_package(root, fmt)
    with fw.quiet():
        convolve_model_dir(d, filters(['A', 'B']))
        if fmt == 'perfile':
            convolve_model_dir_monochromatic(d)
    ref = snapshot(d, None)
    shutil.rmtree(d, ignore_errors=True)
    return ref


def replay_chunk(behs, root, seed):
    from astropy import units as u
    from sedfitter.convolve import convolve_model_dir, convolve_model_dir_monochromatic
    col = Collector()
    refs = {}
    wav_desc = sorted((12.0 / g for g in GX), reverse=True)         # index j (1-based, file MO00j) <-> j-th largest wavelength
    for bi, b in enumerate(behs):
        fmt = b['fmt']
        if fmt not in refs:
            refs[fmt] = reference(root, fmt)
            if fmt == 'cube':
                refs[fmt].update({k: 1.0 for k in FILES if k.startswith('MO')})
        d = new_package(root, fmt)
        gen = 1
        try:
            for i, h in enumerate(b['hist']):
                op = h['op']
                col.replayed += 1
                out = 'ok'
                try:
                    with fw.quiet():
                        if op['k'] == 'bump':
                            gen += 1
                            write_seds(d, fmt, gen)
                        elif op['k'] == 'convolve':
                            convolve_model_dir(d, filters(op['fs']), overwrite=bool(op['ow']))
                        else:
                            lo, hi = op['lo'], op['hi']
                            kw = {}
                            # window of wavelength indices lo..hi (descending wavelength); bounds strictly between tabulated wavelengths
                            if not (lo == 1 and hi == 3 and (bi + i + seed) % 2):
                                kw['wav_max'] = (wav_desc[lo - 1] * 1.01) * u.micron
                                kw['wav_min'] = (wav_desc[hi - 1] * 0.99 if hi >= 1 else wav_desc[0] * 1.005) * u.micron
                                if hi < lo:
                                    kw['wav_min'] = (wav_desc[lo - 1] * 1.005) * u.micron       # empty window just above wavelength lo
                            convolve_model_dir_monochromatic(d, overwrite=bool(op['ow']), max_ram=[8, 1.6e-8, 3e-8][(bi + i + seed) % 3], **kw)
                except Exception as e:
                    out = 'err'
                    err = repr(e)
                got = snapshot(d, refs[fmt])
                want = {f: h['files'][f] for f in FILES}
                if out != h['out'] or got != want:
                    col.violation('X07:%s:%s' % (op['k'], 'outcome' if out != h['out'] else 'files'),
                                  '%s package, call %d %r (SED generation %d): %s, files %r; spec: %s, files %r' % (
                                      fmt, i + 1, op, gen, out + ('' if out == 'ok' else ' ' + err[:80]), got, h['out'], want), b)
                    break
        finally:
            shutil.rmtree(d, ignore_errors=True)
    return col


def record_traces(seeds, root):
    """random longer histories on real packages, logged call by call (code -> spec direction)"""
    import random
    from astropy import units as u
    from sedfitter.convolve import convolve_model_dir, convolve_model_dir_monochromatic
    out = []
    refs = {}
    wav_desc = sorted((12.0 / g for g in GX), reverse=True)
    for sd in seeds:
        rng = random.Random(sd)
        fmt = rng.choice(['perfile', 'perfile', 'cube'])
        if fmt not in refs:
            refs[fmt] = reference(root, fmt)
            if fmt == 'cube':
                refs[fmt].update({k: 1.0 for k in FILES if k.startswith('MO')})
        d = new_package(root, fmt)
        gen = 1
        tr = [{'ev': 'Init', 'fmt': fmt}]
        try:
            for _ in range(rng.randint(4, 9)):
                r = rng.random()
                if r < 0.15:
                    op = {'k': 'bump', 'fs': [], 'ow': False, 'lo': 0, 'hi': 0}
                elif r < 0.65 or fmt == 'cube' and r < 0.9:
                    fs = [rng.choice('AB') for _ in range(rng.randint(1, 3))]          # a filter may be named twice in one call
                    op = {'k': 'convolve', 'fs': fs, 'ow': rng.random() < 0.4, 'lo': 0, 'hi': 0}
                else:
                    lo = rng.randint(1, 3)
                    op = {'k': 'mono', 'fs': [], 'ow': rng.random() < 0.4, 'lo': lo, 'hi': rng.randint(lo - 1, 3)}
                res = 'ok'
                try:
                    with fw.quiet():
                        if op['k'] == 'bump':
                            gen += 1
                            write_seds(d, fmt, gen)
                        elif op['k'] == 'convolve':
                            convolve_model_dir(d, filters(op['fs']), overwrite=op['ow'])
                        else:
                            lo, hi = op['lo'], op['hi']
                            kw = {'wav_max': (wav_desc[lo - 1] * 1.01) * u.micron,
                                  'wav_min': (wav_desc[hi - 1] * 0.99 if hi >= lo else wav_desc[lo - 1] * 1.005) * u.micron}
                            convolve_model_dir_monochromatic(d, overwrite=op['ow'], max_ram=rng.choice([8, 1.6e-8, 3e-8]), **kw)
                except Exception:
                    res = 'err'
                snap = snapshot(d, refs[fmt])
                tr.append({'ev': 'Call', 'op': op, 'out': res, 'files': {f: (snap[f] if isinstance(snap[f], int) else -1) for f in FILES}})
        finally:
            shutil.rmtree(d, ignore_errors=True)
        out.append(tr)
    return out


def run(ctx):
    q = not ctx.thorough
    cfg = ctx.tmp('MC_ConvDir_run.cfg')
    with open(cfg, 'w') as f:
        f.write('SPECIFICATION Spec\nCONSTANTS\n  MaxOps = %d\n  MaxGen = 3\nINVARIANT NoFuture\nINVARIANT EmitInv\nPROPERTY NoSilentOverwrite\nPROPERTY OkMeansFresh\n'
                'PROPERTY OverwriteNeverRefused\nPROPERTY RefusedTouchesOnlyOwn\nCHECK_DEADLOCK FALSE\n' % 3)
    res = model_check(ctx, 'ConvDir', cfg, timeout=1800, coverage=False)
    em = [b for b in res['emitted'] if isinstance(b, dict) and 'hist' in b]
    if not em:
        raise MachineryError('no behaviours emitted')
    r2 = run_tlc(ctx, 'ConvDir', 'MC_ConvDir_reach.cfg', timeout=600, coverage=False, extra=['-continue'], workers=4)
    if 'Invariant NeverPartial is violated' not in r2['out'] or 'Invariant NeverStale is violated' not in r2['out']:
        raise MachineryError('named behaviours PartialOnConflict / StaleSurvives are not reachable in the model')
    mod = 24 if q else 3
    chosen = [b for b in em if (zlib.crc32(json.dumps(b, sort_keys=True).encode()) + ctx.seed) % mod == 0]
    ctx.notes['mc_constants'] = 'both formats; every history of 3 calls over convolve_model_dir x 4 filter lists x overwrite, monochromatic x 9 index windows (incl. empty) x overwrite, SED change'
    ctx.notes['behaviours_emitted'] = len(em)
    ctx.notes['behaviours_replayed'] = len(chosen)
    ctx.notes['named_behaviours_reachable'] = ['PartialOnConflict', 'StaleSurvives']
    ctx.sample({'behaviour': chosen[len(chosen) // 2]})
    root = ctx.mkdtemp('cd')
    for col in pmap(lambda c: replay_chunk(c, root, ctx.seed), chosen):
        col.merge_into(ctx)
    seeds = [ctx.seed * 65537 + i for i in range(200 if q else 2000)]
    trs = []
    for part in pmap(lambda c: record_traces(c, root), seeds):
        trs.extend(part)
    ctx.sample({'trace': trs[0]})
    for idx, viol in validate_traces(ctx, 'Trace_ConvDir', 'Trace_ConvDir.cfg', trs, chunk=500)[:10]:
        ctx.violation('X07:trace:%s' % (viol[0][1] if viol else '?'), 'recorded convolution history rejected by Trace_ConvDir: %r' % (viol[:5],),
                      {'trace': trs[idx], 'viol': viol})
