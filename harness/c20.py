"""C20 -- source lines are parsed by the documented column layout or rejected.

spec/SourceLine.tla + MC_SourceLine (every token-class sequence up to MaxCols) replayed into
Source.from_ascii/to_ascii/to_dict/from_dict/pickle + Trace_SourceLine (recorded data files).
"""
import math
import pickle
import random

import numpy as np

from .common import model_check, validate_traces, MachineryError, pmap, Collector

FLAGS = [0, 1, 2, 3, 4, 9]
BADS = ['5', '7', '-1', '10', '8', '6', '-9', '44']


def tok_string(c, p, salt=0):
    """concrete text of the token of class c at (1-based) position p"""
    if c == 'F':
        return str(FLAGS[(p * 5 + salt) % 6])
    if c == 'B':
        return BADS[(p + salt) % len(BADS)]
    if c == 'N':
        v = (1.0 + ((p * 13 + salt) % 37) / 37.0) * 10.0 ** (((p * 7 + salt) % 61) - 30)
        if (p + salt) % 5 == 0:
            v = -v
        if (p + salt) % 11 == 3:
            return '-9.999e+02'
        return '%.6e' % v
    if c == 'S':
        # names are any text without blanks: catalogue designations, and characters that mean something elsewhere (#, %, :, +, /, quotes)
        menu = ['SSTGLMC_G%03d.%04d-00.3420' % (p, salt % 10000), 'src_%d' % p, 'HD_163296#%d' % p, '#%d' % p, "IRAS_%d+%d/b:'c'" % (p, salt % 97),
                '%%s{%d}' % p, 'J%02d:%02d:%02d.5-01' % (p % 24, salt % 60, p % 60), 'src_%d' % p]
        return menu[(p + salt) % len(menu)]
    raise ValueError(c)


def parse(line):
    from sedfitter.source import Source
    try:
        s = Source.from_ascii(line)
    except EOFError:
        return 'eof', None
    except Exception as e:
        return 'reject', None
    return 'ok', s


def roundtrips(s):
    """to_ascii -> from_ascii to printed precision; dict and pickle lossless"""
    from sedfitter.source import Source
    bad = []
    try:
        s2 = Source.from_ascii(s.to_ascii())
        if s2.name != s.name:
            bad.append('name %r -> %r' % (s.name, s2.name))
        if list(s2.valid) != list(s.valid):
            bad.append('flags %r -> %r' % (list(s.valid), list(s2.valid)))
        for a, b, nm in ((s.flux, s2.flux, 'flux'), (s.error, s2.error, 'error')):
            if len(a) != len(b) or any(abs(x - y) > 5.1e-4 * abs(x) for x, y in zip(a, b)):
                bad.append('%s %r -> %r' % (nm, list(a), list(b)))
        for a, b, nm in ((s.x, s2.x, 'x'), (s.y, s2.y, 'y')):
            if abs(a - b) > 5.1e-6 + 1e-12 * abs(a):
                bad.append('%s %r -> %r' % (nm, a, b))
    except Exception as e:
        bad.append('to_ascii/from_ascii raised %r' % (e,))
    try:
        s3 = Source.from_dict(s.to_dict())
        s4 = pickle.loads(pickle.dumps(s, 2))
        for t, nm in ((s3, 'dict'), (s4, 'pickle')):
            if not (t.name == s.name and t.x == s.x and t.y == s.y and np.array_equal(t.valid, s.valid)
                    and np.array_equal(t.flux, s.flux) and np.array_equal(t.error, s.error)):
                bad.append('%s round trip differs' % nm)
    except Exception as e:
        bad.append('dict/pickle raised %r' % (e,))
    return bad


def replay_chunk(behs, seed):
    col = Collector()
    for b in behs:
        cols = b['cols']
        for salt in (seed % 97, seed % 97 + 1):
            toks = [tok_string(c, i + 1, salt) for i, c in enumerate(cols)]
            sep = ['  ', ' ', '\t', '   '][salt % 4]
            line = sep.join(toks) + ('\n' if salt % 2 else '')
            k, s = parse(line)
            col.replayed += 1
            exp = b['res']
            if k != exp['k']:
                col.violation('C20:outcome:%s->%s' % (exp['k'], k),
                              'line %r (classes %s): spec says %s, from_ascii gives %s' % (line, ''.join(cols), exp['k'], k),
                              {'line': line, 'classes': cols, 'expected': exp, 'observed': k})
                continue
            if k != 'ok':
                continue
            want = {'name': toks[exp['name'] - 1], 'x': float(toks[exp['x'] - 1]), 'y': float(toks[exp['y'] - 1]),
                    'valid': [int(toks[p - 1]) for p in exp['valid']],
                    'flux': [float(toks[p - 1]) for p in exp['flux']], 'err': [float(toks[p - 1]) for p in exp['err']]}
            got = {'name': s.name, 'x': float(s.x), 'y': float(s.y), 'valid': [int(v) for v in s.valid],
                   'flux': [float(v) for v in s.flux], 'err': [float(v) for v in s.error]}
            if want != got:
                col.violation('C20:layout', 'line %r parsed as %r, documented layout gives %r' % (line, got, want),
                              {'line': line, 'classes': cols, 'expected': want, 'observed': got})
                continue
            bad = roundtrips(s)
            if bad:
                col.violation('C20:roundtrip', 'line %r: %s' % (line, '; '.join(bad)), {'line': line, 'problems': bad})
    return col


# ---- recorded data files ----------------------------------------------------------
def rand_line(rng, n):
    cols = ['S' if rng.random() < 0.9 else rng.choice('FBN')] + [rng.choice('NNNFB') for _ in range(2)]
    cols += ['F'] * n + [rng.choice('NNNNNFB') for _ in range(2 * n)]
    r = rng.random()
    if r < 0.45:
        pass
    elif r < 0.60 and len(cols) > 3:          # drop a column
        del cols[rng.randrange(len(cols))]
    elif r < 0.75:                           # extra column
        cols.insert(rng.randrange(len(cols) + 1), rng.choice('FBNS'))
    elif r < 0.90 and n > 0:                 # a bad flag
        cols[3 + rng.randrange(n)] = rng.choice('BNS')
    else:                                    # a non-number among the values / coordinates
        cols[rng.randrange(1, len(cols))] = 'S'
    return cols


def record(seeds):
    out = []
    for sd in seeds:
        rng = random.Random(sd)
        n = rng.randint(0, 12)
        tr = []
        for li in range(rng.randint(1, 8)):
            if rng.random() < 0.12:
                cols = [rng.choice('SFN') for _ in range(rng.randint(0, 2))]   # short line: ends the input
            else:
                cols = rand_line(rng, n)
            salt = rng.randrange(1000)
            toks = [tok_string(c, i + 1, salt) for i, c in enumerate(cols)]
            if cols and cols[0] == 'S' and rng.random() < 0.3:
                toks[0] = ('x' * rng.randint(31, 40))                           # long names
            line = ' '.join(toks)
            k, s = parse(line)

            def cands(val, conv):
                res = []
                for i, t in enumerate(toks):
                    try:
                        if conv(t) == val:
                            res.append(i + 1)
                    except Exception:
                        pass
                return res
            ev = {'ev': 'Parse', 'cols': cols, 'k': k, 'name': [], 'x': [], 'y': [], 'valid': [], 'flux': [], 'err': [], 'roundtrip': 1}
            if k == 'ok':
                ev['name'] = cands(s.name, str)
                ev['x'] = cands(float(s.x), float)
                ev['y'] = cands(float(s.y), float)
                ev['valid'] = [cands(int(v), int) for v in s.valid]
                ev['flux'] = [cands(float(v), float) for v in s.flux]
                ev['err'] = [cands(float(v), float) for v in s.error]
                ev['roundtrip'] = 0 if roundtrips(s) else 1
            tr.append(ev)
            if k == 'eof':
                break
        out.append(tr)
    return out


def run(ctx):
    q = not ctx.thorough
    cfg = ctx.tmp('sl.cfg')
    mod = 5 if q else 61
    with open(cfg, 'w') as f:
        f.write('SPECIFICATION Spec\nCONSTANTS\n  MaxCols = %d\n  Classes = {"F", "B", "N", "S"}\n  SampleMod = %d\n  SampleRes = %d\n'
                'INVARIANT LayoutInv\nINVARIANT RoundTripInv\nINVARIANT EmitInv\nCHECK_DEADLOCK FALSE\n' % (9 if q else 12, mod, ctx.seed % mod))
    res = model_check(ctx, 'MC_SourceLine', cfg, timeout=3000, coverage=False)
    em = res['emitted']
    if not em:
        raise MachineryError('no behaviours emitted')
    ctx.notes['mc_constants'] = 'every token-class sequence of length 0..%d over {F,B,N,S}' % (9 if q else 12)
    ctx.notes['behaviours_emitted'] = len(em)
    ctx.notes['behaviours_ok'] = sum(1 for b in em if b['res']['k'] == 'ok')
    oks = [b for b in em if b['res']['k'] == 'ok']
    ctx.sample({'behaviour': oks[len(oks) // 2] if oks else em[0]})
    for col in pmap(lambda c: replay_chunk(c, ctx.seed), em):
        col.merge_into(ctx)
    seeds = [ctx.seed * 1000003 + i for i in range(3000 if q else 30000)]
    trs = []
    for part in pmap(record, seeds):
        trs.extend(part)
    ctx.sample({'trace': trs[1]})
    rejected = validate_traces(ctx, 'Trace_SourceLine', 'Trace_SourceLine.cfg', trs, chunk=4000)
    for idx, viol in rejected[:10]:
        ctx.violation('C20:trace:%s' % (viol[0][1] if viol else '?'), 'recorded data file rejected by Trace_SourceLine: %r' % (viol,),
                      {'trace': trs[idx], 'viol': viol})
    ctx.notes['exhaustive'] = True
    ctx.assumptions += ['token classes: flag int / other int / non-integer number / non-number; "nan"/"inf" spellings are not driven',
                        'decimal formatting precision (4 significant digits, 5 decimals for coordinates) is compared by the harness, not by TLC']
