"""Projection pi for the fitting kernel: abstract lattice values <-> real packages, sources,
fitters; and the comparison of a real FitInfo with the spec's rows."""
import contextlib
import io
import math
import os
from fractions import Fraction

import numpy as np


@contextlib.contextmanager
def quiet():
    with contextlib.redirect_stdout(io.StringIO()):
        yield


def frac(x):
    return Fraction(int(x[0]), int(x[1]))


SIG = {1: 1.0, 4: 0.5, 16: 0.25}            # W = 1/sigma_log^2
LN10 = math.log(10.0)
JUNK = {'neg999': -999.0, 'zero': 0.0, 'tiny': 1e-30, 'huge': 1e30, 'ordinary': 3.7}


def conf_of(P):
    return 1.0 if P == -1 else 1.0 - math.exp(-P / 2.0)


def make_source(src, name='s', junk='ordinary', junk_err=None, flag1_as=None, flux_scale_dex4=0):
    """abstract source [flag, Y, W, P] -> sedfitter Source.
    flag 1: linear flux/error whose documented log transform is exactly (Y/4, sigma)
    flag 4: (Y/4, sigma) directly;  flags 2/3: (10^(Y/4), confidence)
    flags 0/9: the junk token."""
    from sedfitter.source import Source
    n = len(src['flag'])
    flux = np.zeros(n)
    err = np.zeros(n)
    flags = list(src['flag'])
    for j in range(n):
        f = flags[j]
        y = (src['Y'][j] + flux_scale_dex4) / 4.0
        if f in (1, 4):
            sig = SIG[src['W'][j]]
            if flag1_as is not None:
                f = flags[j] = flag1_as if isinstance(flag1_as, int) else flag1_as[j]
            if f == 1:
                F = 10.0 ** (y + 0.5 * sig * sig * LN10)
                flux[j] = F
                err[j] = F * sig * LN10
            else:
                flux[j] = y
                err[j] = sig
        elif f in (2, 3):
            flux[j] = 10.0 ** y
            err[j] = conf_of(src['P'][j])
        else:
            tok = junk if isinstance(junk, str) else junk[j]
            flux[j] = JUNK[tok]
            err[j] = JUNK[tok] if junk_err is None else junk_err
    s = Source()
    s.name = name
    s.x = 1.5
    s.y = -2.5
    s.valid = np.array(flags, dtype=int)
    s.flux = flux
    s.error = err
    return s


def band_wavelengths(nb):
    """central wavelengths (micron) of the abstract bands; none equals 0.55"""
    return [1.0 + 0.75 * j for j in range(nb)]


def make_extinction(K, wavs, scale=1.0, chi_unit=None, wav_unit=None, variety=None, vfactor=1.0):
    """law with opacity K_j*scale at wavelength j and 2*scale at 0.55 micron: k_j = -K_j/5.
    variety (int): the representation of the law (wavelength unit, opacity unit, overall factor) is drawn from it --
    the pattern k does not depend on the representation (C14), so every fit property must hold for all of them."""
    from astropy import units as u
    from sedfitter.extinction import Extinction
    if variety is not None:
        wav_unit = wav_unit or [u.micron, u.nm, u.angstrom, u.cm, u.micron, u.mm][variety % 6]
        chi_unit = chi_unit or [u.cm ** 2 / u.g, u.m ** 2 / u.kg][(variety // 6) % 2]
        scale = scale * [1.0, 7.5, 0.01][(variety // 12) % 3]
    # vfactor: the opacity at V is multiplied by it, i.e. every coefficient k_j is divided by it (spec theorem ScaleK)
    nodes = sorted([(0.55, 2.0 * vfactor)] + [(w, float(k)) for w, k in zip(wavs, K)] + [(0.3, 5.0 * vfactor), (50.0, 0.0)])
    law = Extinction()
    wu = wav_unit or u.micron
    cu = chi_unit or (u.cm ** 2 / u.g)
    law.wav = (np.array([x for x, _ in nodes]) * u.micron).to(wu)
    law.chi = (np.array([y for _, y in nodes]) * scale * u.cm ** 2 / u.g).to(cu)
    return law


def write_conf(d, aperture_dependent=False, logd_step=0.02, version=1):
    with open(os.path.join(d, 'models.conf'), 'w') as f:
        f.write('name = verif\nlength_subdir = 0\n')
        f.write('aperture_dependent = %s\n' % ('yes' if aperture_dependent else 'no'))
        f.write('logd_step = %r\n' % logd_step)
        if version != 1:
            f.write('version = %d\n' % version)


def build_indep_package(d, names, grid, filt_names, wavs, version=1, zero_cells=()):
    """package that is not aperture dependent: convolved/<f>.fits written with the
    library's own writer.  grid[m][j] = quarter-dex log10 flux (mJy).  version=2: a cube-format
    package (models.conf version 2 + flux.fits holding the same model names; the fitter reads the
    convolved files by filter name)."""
    from astropy import units as u
    from sedfitter.convolved_fluxes import ConvolvedFluxes
    os.makedirs(os.path.join(d, 'convolved'))
    write_conf(d, version=version)
    if version == 2:
        from . import pkgworld as pw
        # the cube holds the same fluxes at the band wavelengths, so that a filter may also be given by its WAVELENGTH
        pw.cube_object(list(names), list(wavs), None, lambda m, a, w: (0.0 if (m, w) in zero_cells else 10.0 ** (grid[m][w] / 4.0)),
                       lambda m, a, w: 0.1, 'desc').write(os.path.join(d, 'flux.fits'))
    for j, fn in enumerate(filt_names):
        c = ConvolvedFluxes()
        c.central_wavelength = wavs[j] * u.micron
        c.model_names = np.array(names, dtype='U30')
        c.apertures = None
        c.flux = np.array([[0.0 if (m, j) in zero_cells else 10.0 ** (grid[m][j] / 4.0)] for m in range(len(names))]) * u.mJy
        c.error = np.zeros((len(names), 1)) * u.mJy
        c.write(os.path.join(d, 'convolved', fn + '.fits'))


def make_fitter(d, filt_names, law, ulo, uhi, distance_range=None, apertures=None, use_memmap=False, distance_unit='kpc', remove_resolved=False, aperture_unit='arcsec'):
    from astropy import units as u
    from sedfitter.fit import Fitter
    ap = apertures if apertures is not None else [3.0] * len(filt_names)
    dr = distance_range if distance_range is not None else [1.0, 2.0]
    with quiet():
        return Fitter(list(filt_names), (np.array(ap) * u.arcsec).to(getattr(u, aperture_unit)), d, extinction_law=law,
                      av_range=(ulo / 4.0, uhi / 4.0), distance_range=(np.array(dr) * u.kpc).to(getattr(u, distance_unit)),
                      use_memmap=use_memmap, remove_resolved=remove_resolved)


def fclose(x, y, rel=1e-7, abs_=1e-8):
    x = float(x)
    y = float(y)
    if math.isnan(x) or math.isnan(y):
        return math.isnan(x) and math.isnan(y)
    if math.isinf(x) or math.isinf(y):
        return x == y
    return abs(x - y) <= max(abs_, rel * max(abs(x), abs(y)))


def project_info(info):
    """whole observable state of a FitInfo, as plain python"""
    return {
        'names': [str(x).strip() for x in info.model_name],
        'ids': [int(x) for x in info.model_id],
        'av': [float(x) for x in info.av],
        'sc': [float(x) for x in info.sc],
        'chi2': [float(x) for x in info.chi2],
        'pred': None if info.model_fluxes is None else [[float(y) for y in r] for r in np.asarray(info.model_fluxes)],
    }


def expected_row(row):
    """spec row -> floats"""
    if row.get('sing'):
        return None
    chi = float(frac(row['chi']))
    if row['big']:
        chi = row['big'] * 1e30
    return {'av': float(frac(row['u']) / 4), 'sc': float(frac(row['v']) / 40), 'chi2': chi,
            'pred': [float(frac(p) / 20) for p in row['pred20']], 'boundary': bool(row['boundary'])}


def compare_fit(obs, names, rows, check=('av', 'sc', 'chi2'), check_rank=False, check_pred=False, sc_shift=0.0):
    """obs = project_info(...); names = package order; rows = spec rows (package order).
    Returns list of mismatch strings (empty = conforms).  Rows are matched BY MODEL NAME."""
    bad = []
    n = len(names)
    if check_rank:
        if sorted(obs['names']) != sorted(names):
            bad.append('rows do not list every model exactly once: %r' % obs['names'])
            return bad
        c = obs['chi2']
        for i in range(len(c) - 1):
            a, b = c[i], c[i + 1]
            if math.isnan(a) and not math.isnan(b):
                bad.append('NaN ranked before a number at row %d' % i)
            elif not math.isnan(a) and not math.isnan(b) and a > b and not fclose(a, b, 1e-12, 0.0):
                bad.append('chi2 not non-decreasing at row %d: %r > %r' % (i, a, b))
    for m, nm in enumerate(names):
        exp = expected_row(rows[m])
        if exp is None:
            continue
        where = [i for i, x in enumerate(obs['names']) if x == nm]
        if len(where) != 1:
            bad.append('model %s appears %d times' % (nm, len(where)))
            continue
        i = where[0]
        if check_rank and obs['ids'][i] != m:
            bad.append('model_id of %s is %d, package index is %d' % (nm, obs['ids'][i], m))
        if 'av' in check and not fclose(obs['av'][i], exp['av']):
            bad.append('%s: av %r, spec %r' % (nm, obs['av'][i], exp['av']))
        if 'sc' in check and not fclose(obs['sc'][i], exp['sc'] + sc_shift):
            bad.append('%s: sc %r, spec %r' % (nm, obs['sc'][i], exp['sc'] + sc_shift))
        if 'chi2' in check and not exp['boundary'] and not fclose(obs['chi2'][i], exp['chi2'], 1e-7, 1e-7):
            bad.append('%s: chi2 %r, spec %r' % (nm, obs['chi2'][i], exp['chi2']))
        if check_pred:
            if obs['pred'] is None:
                bad.append('no model_fluxes')
            else:
                for j, (o, e) in enumerate(zip(obs['pred'][i], exp['pred'])):
                    if not fclose(o, e - 2 * sc_shift):
                        bad.append('%s: predicted log flux band %d %r, spec %r' % (nm, j, o, e - 2 * sc_shift))
    return bad
