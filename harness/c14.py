"""C14 -- the extinction law is normalised at V, unit-free and zero outside its table.

spec/ExtinctionLaw.tla (exact) + Extinction.tla (table built node by node, then representation
changes) replayed into Extinction.get_av + Trace_Extinction (random larger tables).
"""
import os
import zlib
import pickle
import random

import numpy as np

from .common import model_check, validate_traces, MachineryError, pmap, Collector, dec7
from .fitworld import frac, fclose


def build(w, c):
    from astropy import units as u
    from sedfitter.extinction import Extinction
    law = Extinction()
    law.wav = np.array(w, dtype=float) / 40.0 * u.micron
    law.chi = np.array(c, dtype=float) * u.cm ** 2 / u.g
    return law


def convert(law, kind, tmpdir, tag, inplace=False):
    from astropy import units as u
    from sedfitter.extinction import Extinction
    if kind == 'pickle':
        return pickle.loads(pickle.dumps(law, 2))
    if kind == 'table':
        return Extinction.from_table(law.to_table())
    if kind == 'file_units':
        # a text file in nm and m^2/kg, read with the reader's wav_unit / chi_unit arguments
        p = os.path.join(tmpdir, 'lawu_%s.txt' % tag)
        wv = law.wav.to(u.nm).value
        cv = law.chi.to(u.m ** 2 / u.kg).value
        with open(p, 'w') as f:
            for a, b in zip(wv, cv):
                f.write('%r %r\n' % (float(a), float(b)))
        law2 = Extinction.from_file(p, wav_unit=u.nm, chi_unit=u.m ** 2 / u.kg)
        os.remove(p)
        return law2
    if kind in ('file', 'file_cols'):
        p = os.path.join(tmpdir, 'law_%s.txt' % tag)
        wv = law.wav.to(u.micron).value
        cv = law.chi.to(u.cm ** 2 / u.g).value
        with open(p, 'w') as f:
            f.write('# an extinction law\n')
            for a, b in zip(wv, cv):
                if kind == 'file':
                    f.write('%r %r\n' % (float(a), float(b)))
                else:
                    f.write('%r 99.0 %r 7\n' % (float(b), float(a)))
        law2 = Extinction.from_file(p) if kind == 'file' else Extinction.from_file(p, columns=(2, 0))
        os.remove(p)
        return law2
    if inplace and kind in ('units_nm_si', 'scale3', 'scale_third'):
        # the setters are public API: re-assign on the SAME object, after it has already been evaluated
        law.get_av(np.array([0.55]) * u.micron)
        if kind == 'units_nm_si':
            law.chi = law.chi.to(u.m ** 2 / u.kg)
        else:
            law.chi = law.chi * (3.0 if kind == 'scale3' else 1.0 / 3.0)
        return law
    new = Extinction()
    if kind == 'units_nm_si':
        new.wav = law.wav.to(u.nm)
        new.chi = law.chi.to(u.m ** 2 / u.kg)
    elif kind == 'units_cm':
        # any unit of length, including ones in which the tabulated numbers become tiny (km, pc)
        new.wav = law.wav.to([u.cm, u.m, u.km, u.pc][zlib.crc32(tag.encode()) % 4])
        new.chi = law.chi
    elif kind == 'scale3':
        new.wav = law.wav
        new.chi = law.chi * 3.0
    elif kind == 'scale_third':
        new.wav = law.wav
        new.chi = law.chi / 3.0
    else:
        raise ValueError(kind)
    return new


def query(law, q40, style, scalar=False):
    """scalar=True: one call per wavelength with a true 0-d Quantity"""
    from astropy import units as u
    if scalar:
        return np.array([np.asarray(query_one(law, x, style), dtype=float).reshape(-1)[0] for x in q40])
    lam = np.array(q40, dtype=float) / 40.0 * u.micron
    if style == 1:
        lam = lam.to(u.nm)
    elif style == 2:
        lam = lam.to(u.cm)
    elif style == 3:
        lam = lam.to(u.m)
    return np.asarray(law.get_av(lam), dtype=float)


def query_one(law, x40, style):
    from astropy import units as u
    lam = (float(x40) / 40.0) * u.micron
    lam = lam.to([u.micron, u.nm, u.cm, u.m][style])
    return law.get_av(lam)


def replay_chunk(behs, tmpdir, seed):
    col = Collector()
    for bi, b in enumerate(behs):
        try:
            law = build(b['w'], b['c'])
            for ci, k in enumerate(b['convs']):
                law = convert(law, k, tmpdir, '%d_%d_%d' % (os.getpid(), bi, ci), inplace=bool((bi + ci + seed) % 2))
            qs = sorted(int(x) for x in b['q'])
            got = query(law, qs, (bi + seed) % 4)
            if (bi + seed) % 3 == 0:
                got1 = [float(v) for v in query(law, qs, (bi + seed + 1) % 4, scalar=True)]
            else:
                got1 = [float(query(law, [x], (bi + seed + 1) % 4)[0]) for x in qs]
        except Exception as e:
            col.violation('C14:raised:%s' % type(e).__name__, 'table w=%r c=%r after %r: %r' % (b['w'], b['c'], b['convs'], e), b)
            continue
        col.replayed += 1
        unitconv = any(k.startswith('units') or k == 'file_units' for k in b['convs'])
        for x, g, g1 in zip(qs, got, got1):
            want = float(frac(b['q'][str(x)]))
            edge = x in (b['w'][0], b['w'][-1])

            def ok(val, style):
                # boundary: a query exactly on an end node that goes through a unit conversion may land 1 ulp outside
                return fclose(val, want, 1e-12, 1e-14) or (edge and (unitconv or style != 0) and val == 0.0)
            if not (ok(g, (bi + seed) % 4) and ok(g1, (bi + seed + 1) % 4)):
                col.violation('C14:value', 'law w=%r/40 um chi=%r after %r: get_av(%g um) = %r (vector) / %r (one wavelength per call, 1-element array or 0-d Quantity), spec %r'
                              % (b['w'], b['c'], b['convs'], x / 40.0, float(g), g1, want), dict(b, query=x, observed=[float(g), g1]))
                break
    return col


def record(seeds, tmpdir, maxrows):
    out = []
    for sd in seeds:
        rng = random.Random(sd)
        n = rng.choice([2, 2, 3, 5, 8, 13, 21, 34, 55, 89, 144, 200])
        n = min(n, maxrows)
        lo = rng.randint(1, 22)
        hi = rng.randint(max(23, lo + n), max(24, lo + n, 400))     # 32-bit envelope of the exact 7-digit expansion
        ws = sorted(set([lo, hi] + [rng.randint(lo, hi) for _ in range(n - 2)]))
        if rng.random() < 0.3 and 22 not in ws and lo < 22:
            ws = sorted(set(ws + [22]))
        cs = [rng.randint(1, 30) for _ in ws]
        tr = [{'ev': 'Law', 'w': ws, 'c': cs}]
        law = build(ws, cs)
        for step in range(rng.randint(1, 8)):
            if rng.random() < 0.35:
                k = rng.choice(['pickle', 'table', 'file', 'file_cols', 'file_units', 'units_nm_si', 'units_cm', 'scale3', 'scale_third'])
                ev = {'ev': 'Conv', 'kind': k, 'raised': 0}
                try:
                    law = convert(law, k, tmpdir, '%d_%d' % (sd, step), inplace=rng.random() < 0.5)
                except Exception:
                    ev['raised'] = 1
                tr.append(ev)
            else:
                r = rng.random()
                q = rng.choice(ws) if r < 0.3 else (rng.randint(1, lo) if r < 0.4 else (rng.randint(hi, hi + 50) if r < 0.5 else rng.randint(lo, hi)))
                style = rng.randint(0, 3)
                v = float(query(law, [q], style)[0])
                conv = int(style != 0 or any(e.get('kind', '').startswith('units') or e.get('kind') == 'file_units' for e in tr if e['ev'] == 'Conv'))
                tr.append({'ev': 'Query', 'q': q, 'av': dec7(v), 'conv': conv})
        out.append(tr)
    return out


def run(ctx):
    q = not ctx.thorough
    cfg = ctx.tmp('ext.cfg')
    mod = 12 if q else 6
    with open(cfg, 'w') as f:
        f.write('SPECIFICATION Spec\nCONSTANTS\n  Nodes = {8, 16, 22, 28, 40, 60}\n  Opac = %s\n'
                '  Queries = {4, 8, 12, 16, 19, 22, 25, 28, 34, 40, 50, 60, 70}\n  MaxNodes = %d\n  MaxConv = %d\n  SampleMod = %d\n  SampleRes = %d\n'
                'INVARIANT ExactAtV\nINVARIANT ZeroOutside\nINVARIANT ScaleInvariant\nINVARIANT AtNodes\nINVARIANT NonPositive\nINVARIANT EmitInv\n'
                'PROPERTY TableNeverChanges\nCHECK_DEADLOCK FALSE\n' % ('{1, 2, 4}' if q else '{1, 2, 3, 4}', 5, 2, mod, ctx.seed % mod))
    res = model_check(ctx, 'Extinction', cfg, timeout=3000, coverage=False)
    em = res['emitted']
    if not em:
        raise MachineryError('no behaviours emitted')
    ctx.notes['mc_constants'] = 'tables of 2..5 nodes out of {0.2,0.4,0.55,0.7,1.0,1.5} um (V on a node or between), opacities %s, 13 query wavelengths, all sequences of 2 of 9 representation changes' % ('{1,2,4}' if q else '1..4')
    ctx.notes['behaviours_emitted'] = len(em)
    ctx.sample({'behaviour': em[len(em) // 2]})
    tmpdir = ctx.mkdtemp('law')
    for col in pmap(lambda c: replay_chunk(c, tmpdir, ctx.seed), em):
        col.merge_into(ctx)
    seeds = [ctx.seed * 100003 + i for i in range(400 if q else 4000)]
    trs = []
    for part in pmap(lambda c: record(c, tmpdir, 60 if q else 200), seeds):
        trs.extend(part)
    ctx.sample({'trace': trs[0]})
    rejected = validate_traces(ctx, 'Trace_Extinction', 'Trace_Extinction.cfg', trs, chunk=500)
    for idx, viol in rejected[:10]:
        ctx.violation('C14:trace:%s' % (viol[0][1] if viol else '?'), 'recorded get_av history rejected: %r' % (viol,), {'trace': trs[idx], 'viol': viol})
    ctx.assumptions += ['wavelengths on a 1/40 micron lattice, integer opacities; interpolation between nodes is exact in rationals and compared to 1e-12 (replay) / 7 digits (traces)']
