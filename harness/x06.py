"""X06 (extension) -- Fitter.__init__ / Models.read (spec/ModelsRead.tla): how a fitter's flux table is assembled from a package
directory.  Every configuration (format, plain / gzipped / missing files, row order of each file, filter given by name or by
wavelength, argument errors) is built for real and the fitter's names and flux table are compared with the spec's tokens."""
import gzip
import json
import zlib
import os
import shutil
import tempfile

import numpy as np

from .common import model_check, MachineryError, pmap, Collector
from . import fitworld as fw
from . import pkgworld as pw

WAV = [1.0, 2.0, 4.0]          # cube wavelengths; filter 1 sits at 1 micron, filter 2 at 4 micron


def tok(m, j):
    return 100.0 * m + 10.0 * j


def write_conv(d, fname, order, j, kind):
    from astropy import units as u
    from sedfitter.convolved_fluxes import ConvolvedFluxes
    if kind == 'missing':
        return
    c = ConvolvedFluxes()
    c.central_wavelength = WAV[0 if j == 1 else 2] * u.micron
    c.model_names = np.array(['model_%d' % m for m in order], dtype='U30')
    c.apertures = None
    c.flux = np.array([[tok(m, j)] for m in order]) * u.mJy
    c.error = np.zeros((len(order), 1)) * u.mJy
    p = os.path.join(d, 'convolved', fname + '.fits')
    c.write(p)
    if kind == 'gz':
        with open(p, 'rb') as fi, gzip.open(p + '.gz', 'wb') as fo:
            shutil.copyfileobj(fi, fo)
        os.remove(p)


def replay_chunk(behs, root):
    from astropy import units as u
    from sedfitter.fit import Fitter
    col = Collector()
    for b in behs:
        cfg, res = b['cfg'], b['res']
        d = tempfile.mkdtemp(dir=root)
        try:
            os.makedirs(os.path.join(d, 'convolved'))
            fw.write_conf(d, aperture_dependent=False, version=cfg['ver'])
            write_conv(d, 'f1', cfg['ord1'], 1, cfg['kind1'])
            if cfg['by2'] == 'name':
                write_conv(d, 'f2', cfg['ord2'], 2, cfg['kind2'])
            if cfg['ver'] == 2:
                # the cube: cell (m, wavelength rank w) = token of (m, filter at that wavelength)
                names = ['model_%d' % m for m in cfg['cubeord']]
                pw.cube_object(names, WAV, None, lambda mi, a, w: tok(cfg['cubeord'][mi], {0: 1, 1: 9, 2: 2}[w]), lambda mi, a, w: 0.0, 'asc').write(os.path.join(d, 'flux.fits'))
            filt = ['f1', 'f2' if cfg['by2'] == 'name' else 4.0 * u.micron]
            law = fw.make_extinction([3, 1], [1.0, 4.0])
            kw = {}
            if cfg['dr']:
                kw['distance_range'] = [1.0, 2.0] * u.kpc
            col.replayed += 1
            try:
                with fw.quiet():
                    ft = Fitter(filt, np.array([3.0] * cfg['naps']) * u.arcsec, d, extinction_law=law, av_range=(0., 1.), use_memmap=False, **kw)
                got = ('ok', [str(x).strip() for x in ft.models.names], np.asarray(ft.models.fluxes.to(u.mJy).value, dtype=float))
            except Exception as e:
                got = ('err', repr(e))
            bad = None
            if got[0] != res['k']:
                bad = 'Fitter(...) %s, spec: %s %s' % ('raised ' + got[1] if got[0] == 'err' else 'was built', res['k'], res['why'])
            elif got[0] == 'ok':
                want_names = ['model_%d' % m for m in res['names']]
                want = np.array([[tok(row[0], 1), tok(row[1], 2)] for row in res['cells']])
                if got[1] != want_names:
                    bad = 'row labels %r, spec %r' % (got[1], want_names)
                elif got[2].shape != want.shape or not np.allclose(got[2], want, rtol=1e-6):
                    bad = 'flux table %r, spec %r (token = 100 model + 10 filter)' % (got[2].tolist(), want.tolist())
                elif not b['agree']:
                    col.extra['tables_with_mixed_rows'] = col.extra.get('tables_with_mixed_rows', 0) + 1
            if bad:
                col.violation('X06:%s' % ('outcome' if got[0] != res['k'] else 'table'), 'package %r: %s' % (cfg, bad), b)
        finally:
            shutil.rmtree(d, ignore_errors=True)
    return col


def run(ctx):
    res = model_check(ctx, 'ModelsRead', 'MC_ModelsRead.cfg', timeout=900, coverage=False)
    em = [b for b in res['emitted'] if isinstance(b, dict) and 'cfg' in b]
    if not em:
        raise MachineryError('no behaviours emitted')
    # drop configurations that differ only in fields the outcome cannot depend on (order of a file that is not read)
    seen, uniq = set(), []
    for b in em:
        c = b['cfg']
        key = (c['ver'], c['kind1'], c['kind2'] if c['by2'] == 'name' else '-', tuple(c['ord1']), tuple(c['ord2']) if c['by2'] == 'name' else '-',
               tuple(c['cubeord']) if c['ver'] == 2 else '-', c['by2'], c['naps'], c['dr'])
        if key not in seen:
            seen.add(key)
            uniq.append(b)
    if not ctx.thorough:
        uniq = [b for b in uniq if (zlib.crc32(json.dumps(b['cfg'], sort_keys=True).encode()) + ctx.seed) % 4 == 0]
    ctx.notes['mc_constants'] = 'formats {per-file, cube} x file kinds {fits, gz, missing}^2 x 7 row orders^2 (one with a missing row) x 2 cube orders x filter 2 by {name, wavelength} x 2|3 apertures x distance_range given or not'
    ctx.notes['behaviours_emitted'] = len(em)
    ctx.notes['behaviours_replayed'] = len(uniq)
    ctx.sample({'behaviour': uniq[len(uniq) // 2]})
    if not any(b['res']['k'] == 'ok' and not b['agree'] for b in uniq) or not any(b['res']['k'] == 'ok' and 'gz' in (b['cfg']['kind1'], b['cfg']['kind2']) for b in uniq):
        raise MachineryError('the replayed subset holds no accepted package with disagreeing / gzipped files')
    root = ctx.mkdtemp('mr')
    for col in pmap(lambda c: replay_chunk(c, root), uniq):
        col.merge_into(ctx)
    ctx.assumptions += ['named behaviour TrustsRowOrder: when the convolved files of a package list the models in different orders the code takes rows positionally '
                        'and labels them from the last filter read; the spec models this as it is and the replay confirms it (tables_with_mixed_rows)']
