"""C09 -- parameter listings follow the fit ranking, for any parameter-file order.

spec/Post.tla (on FitSession): filter_table's index arithmetic as the algorithm layer
(RowsFollowRanking, SortIsNeeded) and, per (source, record length, selector), the expected
listing: every model's chi^2 / A_V / scale / parameters.  Replayed through write_parameters,
write_parameter_ranges, extract_parameters and FitInfo.filter_table on real packages whose
parameter file is in a random row order with padded names.
"""
import os
import random
import shutil

import numpy as np

from .common import model_check, MachineryError, pmap, Collector
from . import fitworld as fw
from .fitworld import frac
from .session import SessionWorld, conc_sel, FOUR


def expected_models(b, names, nan_name=None):
    out = {}
    for m in b['models']:
        nm = names[m['model'] - 1]
        chi = float(frac(m['chi'])) if not m['big'] else m['big'] * 1e30
        out[nm] = {'chi': chi, 'av': float(frac(m['u'])) / 4.0, 'sc': float(frac(m['v'])) / 40.0,
                   'par': [float(x) for x in m['par']], 'extra': 1000.0 + m['model'], 'zeta': (float('nan') if nm == nan_name else 1000.0 + m['model']), 'alpha': 7.0 * (m['model'] - 1)}
    return out


def parvec(par, npar):
    """the numeric columns of the parameter file of a world with npar columns (1..4), as functions of the spec's two values"""
    return [par[0], par[1], 3.0 * par[0] + 1.0, par[1] - 7.0][:npar] if npar != 1 else [par[0]]


def close3(a, b):
    """agreement at the printed precision (%10.3f / %10.3e)"""
    if np.isnan(a) or np.isnan(b):
        return np.isnan(a) and np.isnan(b)
    return abs(a - b) <= 6e-4 * max(abs(a), abs(b)) + 6e-4


def check_rows(rows, exp, b, names, what, npar=2):
    """rows: list of (model_name, chi, av, sc, [pars...]) in listing order"""
    n = len(rows)
    if not (b['lo'] <= n <= b['hi']):
        return '%s lists %d fits, spec admits %d..%d' % (what, n, b['lo'], b['hi'])
    seen = set()
    prev = -1e300
    for i, (nm, chi, av, sc, pars) in enumerate(rows):
        if nm not in exp:
            return '%s row %d: unknown model %r' % (what, i + 1, nm)
        if nm in seen:
            return '%s lists model %s twice' % (what, nm)
        seen.add(nm)
        e = exp[nm]
        if not close3(chi, e['chi']) or not close3(av, e['av']) or not close3(sc, e['sc']):
            return '%s row %d (%s): chi2/av/scale %r, the fit of that model is %r' % (what, i + 1, nm, (chi, av, sc), (e['chi'], e['av'], e['sc']))
        if isinstance(pars, dict):
            want = {'par%d' % (k_ + 1): v_ for k_, v_ in enumerate(parvec(e['par'], npar))}
            want.update({k_: e[k_] for k_ in pars if k_ in ('zeta', 'alpha')})
            if set(pars) != set(want) or any(not close3(pars[k_], want[k_]) for k_ in want):
                return '%s row %d (%s): columns %r, that model has %r' % (what, i + 1, nm, pars, want)
        else:
            want = parvec(e['par'], npar)
            if len(pars) != len(want) or any(not close3(p, w) for p, w in zip(pars, want)):
                return '%s row %d (%s): parameters %r, the parameter file has %r for that model' % (what, i + 1, nm, pars, want)
        if chi < prev - 1e-3 * max(1.0, abs(prev)):
            return '%s rows are not in order of chi2' % what
        prev = chi
    # the listed models are the n best (ties free)
    if n:
        worst = max(exp[nm]['chi'] for nm in seen)
        for nm, e in exp.items():
            if nm not in seen and e['chi'] < worst - 1e-9 * max(1.0, worst):
                return '%s omits %s (chi2 %r) although it lists a worse fit (chi2 %r)' % (what, nm, e['chi'], worst)
    return None


def replay_chunk(items, hdr, root, seed):
    from sedfitter import write_parameters, write_parameter_ranges, extract_parameters
    from sedfitter.fit_info import FitInfoFile
    from sedfitter.models import load_parameter_table
    col = Collector()
    rng = random.Random(seed)
    nm = len(hdr['grid'])
    names = FOUR[:nm]
    worlds = []
    try:
        for wi in range(2):
            npar = 2 if wi == 0 else [1, 3, 4][seed % 3]              # number of numeric columns of the parameter file
            perm = rng.sample(range(nm), nm)
            w = SessionWorld(root, hdr, table_perm=perm)
            # parameter file: the spec's Par values, padded names, chosen row order
            from astropy.table import Table
            t = Table()
            t['MODEL_NAME'] = np.array([names[i] + ('   ' if k % 2 else '') for k, i in enumerate(perm)], dtype='S30')
            for k_ in range(npar):
                t['par%d' % (k_ + 1)] = np.array([parvec([float(x) for x in hdr['par'][i]], npar)[k_] for i in perm])
            os.remove(os.path.join(w.pkg, 'parameters.fits'))
            t.write(os.path.join(w.pkg, 'parameters.fits'))
            worlds.append((w, perm, npar))
        for bi, b in items:
            w, perm, npar = worlds[bi % 2]
            # one model carries an UNDEFINED additional value: in a quarter of the cases the best-fitting one
            nan_name = names[b['ranking'][0] - 1] if (bi % 4 == 0 and b.get('ranking')) else names[-1]
            exp = expected_models(b, names, nan_name)
            unit = hdr['unit']
            csel = conc_sel(b['sel'], unit)
            src = fw.make_source(hdr['pool'][b['sid'] - 1], name='src%d_line0' % b['sid'])
            info = w.fitter().fit(src)
            info.keep(('N', b['nrec']))
            form = ['path', 'obj', 'list'][bi % 3]
            if form == 'path':
                p = w.path('rec')
                fo = FitInfoFile(p, 'w')
                fo.write(info)
                fo.close()
                inp = p
            else:
                inp = info if form == 'obj' else [info]
            additional = {} if bi % 2 else {'zeta': {n_: (float('nan') if n_ == nan_name else 1000.0 + (i + 1)) for i, n_ in enumerate(names)},
                                             'alpha': {n_: 7.0 * i for i, n_ in enumerate(names)}}       # one model has the value 0 exactly
            desc = {'behaviour': b, 'table_row_order': [names[i] for i in perm], 'parameter_columns': npar, 'form': form, 'selector': csel, 'additional': bool(additional)}
            bad = None
            try:
                with fw.quiet():
                    # --- write_parameters
                    p1 = w.path('wp')
                    write_parameters(inp, p1, select_format=csel, additional=additional)
                    alll = open(p1).read().splitlines()
                    colnames = alll[1].split()[5:]                 # second header line: fit_id model_name chi2 av scale <parameters...>
                    lines = alll[3:]
                    head = lines[0].split() if lines else []
                    rows = []
                    for ln in lines[1:]:
                        tk = ln.split()
                        rows.append((tk[1], float(tk[2]), float(tk[3]), float(tk[4]), dict(zip(colnames, [float(x) for x in tk[5:]]))))
                    if not head or head[0] != src.name or int(head[1]) != b['nd'] or int(head[2]) != len(rows):
                        bad = 'write_parameters header %r: expected source %s, n_data %d, n_fits = number of rows listed (%d)' % (head, src.name, b['nd'], len(rows))
                    bad = bad or check_rows(rows, exp, b, names, 'write_parameters', npar)
                    col.replayed += 1
                    # --- extract_parameters
                    if not bad:
                        d = w.path('ex')
                        os.mkdir(d)
                        extract_parameters(input=inp, output_prefix=d + '/', output_suffix='.txt', select_format=csel)
                        xl = [l for l in open(os.path.join(d, src.name + '.txt')).read().splitlines()[1:] if l.strip()]
                        rows2 = []
                        for ln in xl:
                            tk = ln.split()
                            rows2.append((tk[3], float(tk[0]), float(tk[1]), float(tk[2]), [float(x) for x in tk[4:]]))
                        bad = check_rows(rows2, exp, b, names, 'extract_parameters', npar)
                        col.replayed += 1
                    # --- write_parameter_ranges
                    if not bad:
                        p3 = w.path('wr')
                        write_parameter_ranges(inp, p3, select_format=csel, additional=additional)
                        ln = open(p3).read().splitlines()[3].split()
                        n = int(ln[2])
                        col.replayed += 1
                        if ln[0] != src.name or int(ln[1]) != b['nd'] or not (b['lo'] <= n <= b['hi']):
                            bad = 'write_parameter_ranges: source/n_data/n_fits %r, spec %s/%d/%d..%d' % (ln[:3], src.name, b['nd'], b['lo'], b['hi'])
                        elif n == 0:
                            if any(x != '-' for x in ln[3:]):
                                bad = 'write_parameter_ranges: zero fits selected but values printed: %r' % (ln[3:],)
                        else:
                            vals = [float(x) for x in ln[3:]]
                            kept = [names[m - 1] for m in b['ranking'][:n]]
                            getters = {'chi2': lambda e: e['chi'], 'av': lambda e: e['av'], 'scale': lambda e: e['sc'],
                                       'par1': lambda e: e['par'][0], 'par2': lambda e: e['par'][1], 'par3': lambda e: 3.0 * e['par'][0] + 1.0, 'par4': lambda e: e['par'][1] - 7.0, 'zeta': lambda e: e['zeta'], 'alpha': lambda e: e['alpha']}
                            hdr_names = open(p3).read().splitlines()[0].split()      # first header line names the quantities, in column order
                            quantities = [('chi' if q_ == 'chi2' else q_, getters[q_]) for q_ in hdr_names if q_ in getters]
                            want_q = ['chi2', 'av', 'scale'] + ['par%d' % (k_ + 1) for k_ in range(npar)] + (sorted(additional) if additional else [])
                            if sorted(q_ for q_ in hdr_names if q_ in getters) != sorted(want_q):
                                bad = 'write_parameter_ranges: columns %r, expected %r' % (hdr_names, want_q)
                            elif len(vals) != 3 * len(quantities):
                                bad = 'write_parameter_ranges: %d numbers, expected %d' % (len(vals), 3 * len(quantities))
                            tie_top = n >= 1 and len(b['ranking']) > 1 and abs(exp[names[b['ranking'][0] - 1]]['chi'] - exp[names[b['ranking'][1] - 1]]['chi']) < 1e-12
                            for qi, (qn, get) in enumerate(quantities):
                                if bad:
                                    break
                                mn, best, mx = vals[3 * qi:3 * qi + 3]
                                if qn == 'chi' or not b['tie']:
                                    xs = [get(exp[k]) for k in kept]
                                    if any(np.isnan(x_) for x_ in xs):
                                        pass          # the minimum / maximum of a set holding an undefined value is not specified
                                    elif not close3(mn, min(xs)) or not close3(mx, max(xs)):
                                        bad = 'write_parameter_ranges %s: min/max %r/%r, over the %d selected fits it is %r/%r' % (qn, mn, mx, n, min(xs), max(xs))
                                if not bad and (qn == 'chi' or not tie_top):
                                    if not close3(best, get(exp[kept[0]])):
                                        bad = 'write_parameter_ranges %s: best %r, the rank-1 fit (%s) has %r' % (qn, best, kept[0], get(exp[kept[0]]))
                    # --- FitInfo.filter_table directly (the table handed to the parameter plots)
                    if not bad:
                        t0 = load_parameter_table(w.pkg)
                        t0['MODEL_NAME'] = np.char.strip(t0['MODEL_NAME'])
                        t0.sort('MODEL_NAME')
                        info2 = w.fitter().fit(src)
                        info2.keep(('N', b['nrec']))
                        info2.keep(csel)
                        ts = info2.filter_table(t0, additional=additional)
                        col.replayed += 1
                        for i in range(len(info2.chi2)):
                            nm_ = str(info2.model_name[i]).strip()
                            pv = parvec(exp[nm_]['par'], npar)
                            if str(ts['MODEL_NAME'][i]).strip() != nm_ or any(not close3(float(ts['par%d' % (k_ + 1)][i]), pv[k_]) for k_ in range(npar)) or \
                               (additional and not (close3(float(ts['zeta'][i]), exp[nm_]['zeta']) and close3(float(ts['alpha'][i]), exp[nm_]['alpha']))):
                                bad = 'filter_table row %d is %r for fit of %s' % (i, tuple(ts[i]), nm_)
                                break
            except Exception as e:
                col.violation('C09:raised:%s' % type(e).__name__, 'listing (%s input, selector %r, table order %r) raised %r' % (form, csel, desc['table_row_order'], e), desc)
                continue
            if bad:
                col.violation('C09:%s' % bad.split(':')[0].split(' ')[0], '%s input, selector %r, parameter file rows %r: %s' % (form, csel, desc['table_row_order'], bad), desc)
    finally:
        for w, _, _ in worlds:
            w.close()
    return col


def run(ctx):
    res = model_check(ctx, 'MC_Post', 'MC_Post.cfg', timeout=1800, coverage=False)
    hdr = None
    em = []
    for v in res['emitted']:
        if isinstance(v, dict) and 'pool' in v:
            hdr = v
        elif isinstance(v, dict) and 'models' in v:
            em.append(v)
    if hdr is None or not em:
        raise MachineryError('no behaviours emitted')
    hdr['nd'] = [sum(1 for f in p['flag'] if f in (1, 4)) for p in hdr['pool']]
    ctx.notes['mc_constants'] = '4 sources x record lengths 0..4 x 8 selectors x all 24 parameter-file row orders x {sorted first, not sorted}: filter_table index arithmetic; 4 models (one duplicated: exact tie), 2 parameter columns'
    ctx.notes['behaviours_emitted'] = len(em)
    ctx.notes['exhaustive'] = True
    ctx.sample({'behaviour': em[len(em) // 2]})
    root = ctx.mkdtemp('post')
    reps = 1 if not ctx.thorough else 6
    items = [(i + r * 7, b) for r in range(reps) for i, b in enumerate(em)]
    for col in pmap(lambda c: replay_chunk(c, hdr, root, ctx.seed + len(c)), items, chunks_per_proc=1):
        col.merge_into(ctx)
    ctx.assumptions += ['values are compared at the printed precision (4 significant digits)',
                        'with an exact chi^2 tie at the cut, min/max of parameters are not compared; with a tie at rank 1 the best-fit column is compared for chi^2 only']
