"""X02 (extension, not one of the listed properties) -- remove_resolved.

spec/MC_Resolved.tla (FitKernel + RadiusOps): which (model, distance, filter) cells are "extended", and the
grid minimum over the distances that are left.  Replayed through Fitter(..., remove_resolved=True).
"""
import math
import shutil

import numpy as np

from .common import model_check, MachineryError, pmap, Collector
from . import fitworld as fw
from .fitworld import frac
from . import c02


def replay_group(key, behs, root, pid='X02'):
    from astropy import units as u
    col = Collector()
    b0 = behs[0]
    for fmt in ('perfile', 'cube'):
        try:
            d, ft, dist, names = c02.build_world(root, b0['cube'], b0['K'], 0, 40, 3, 0, fmt, False, 10, theta=[1.0, 2.0],
                                                 rc=[['knot'] * 3, ['knot'] * 3], d0=0.001, remove_resolved=True)
        except Exception as e:
            col.violation('%s:load_raised:%s' % (pid, type(e).__name__), 'Fitter(remove_resolved=True) on a %s package raised %r' % (fmt, e), {'cfg': b0['cfg']})
            continue
        try:
            ext = np.asarray(ft.models.extended)
            want = np.array(b0['ext'], dtype=bool)
            col.replayed += 1
            listed = (pid != 'X02')
            if ext.shape != want.shape or (not listed and not np.array_equal(ext, want)):
                col.violation('%s:extended' % pid, '%s package: extended flags %r, spec %r' % (fmt, ext.tolist(), want.tolist()), {'cfg': b0['cfg'], 'cube': b0['cube']})
                continue
            for b in behs:
                info = ft.fit(fw.make_source(b['src']))
                col.replayed += 1
                obs = fw.project_info(info)
                bad = None
                for m, nm_ in enumerate(names):
                    row = b['rows'][m]
                    if row['bnd']:
                        continue
                    i_ = obs['names'].index(nm_)
                    chi, sc, av = obs['chi2'][i_], obs['sc'][i_], obs['av'][i_]
                    if listed:
                        # inside a LISTED property (C04) the classification itself -- WHICH cells count as extended -- is not at stake:
                        # it is read from the fitter, and only what C02/C04 promise given that classification is compared
                        used = [j for j, f_ in enumerate(b['src']['flag']) if f_ > 0]
                        allowed = [i + 1 for i in range(len(dist)) if not any(ext[m][i][j] for j in used)]

                        def key(i):
                            f_ = row['fits'][i - 1]
                            return (f_['big'], float(frac(f_['chi'])))
                        kmin = min([key(i) for i in allowed]) if allowed else None
                        row = dict(row, allowed=allowed, best=[i for i in allowed if key(i) == kmin])
                    di = int(np.argmin([abs(math.log10(x) - sc) for x in dist]))
                    if not row['allowed']:
                        if not math.isinf(chi):
                            bad = '%s is extended at every distance: chi2 %r, spec +inf' % (nm_, chi)
                        elif not listed and abs(sc - math.log10(dist[0])) >= 1e-9:
                            bad = '%s is extended at every distance: scale %r, the code reports the first distance' % (nm_, sc)
                        elif listed and obs['pred'] is not None and any(not fw.fclose(obs['pred'][i_][j], float(frac(row['fits'][di]['pred20'][j])) / 20.0, 1e-7, 1e-7) for j in range(2)):
                            bad = '%s (chi2 = inf): predicted log fluxes %r do not belong to the reported distance %g pc and A_V' % (nm_, obs['pred'][i_], dist[di] * 1000)
                        continue
                    f = row['fits'][di]
                    wchi = float(frac(f['chi'])) if not f['big'] else f['big'] * 1e30
                    if (di + 1) not in row['best']:
                        bad = '%s reported at distance index %d, spec admits %r (allowed %r)' % (nm_, di + 1, row['best'], row['allowed'])
                    elif not fw.fclose(av, float(frac(f['u'])) / 4.0, 1e-7, 1e-7) or not fw.fclose(chi, wchi, 1e-7, 1e-6):
                        bad = '%s: av %r chi2 %r, spec %r %r' % (nm_, av, chi, float(frac(f['u'])) / 4.0, wchi)
                    elif obs['pred'] is not None and any(not fw.fclose(obs['pred'][i_][j], float(frac(f['pred20'][j])) / 20.0, 1e-7, 1e-7) for j in range(2)):
                        bad = '%s: predicted log fluxes %r, spec %r at the reported distance %g pc' % (
                            nm_, obs['pred'][i_], [float(frac(x)) / 20.0 for x in f['pred20']], dist[di] * 1000)
                    if bad:
                        break
                # infinite chi^2 rank last
                fin = [c_ for c_ in obs['chi2']]
                if not bad and any(math.isinf(fin[k]) and not math.isinf(fin[k + 1]) for k in range(len(fin) - 1)):
                    bad = 'an infinite chi2 is ranked before a finite one: %r' % fin
                if bad:
                    col.violation('%s:resolved_fit' % pid if pid != 'X02' else 'X02:fit', '%s package: %s' % (fmt, bad), {'cfg': b['cfg'], 'src': b['src'], 'rows': b['rows'], 'observed': obs})
                    break
        finally:
            shutil.rmtree(d, ignore_errors=True)
    return col


def stage(ctx, pid):
    """remove_resolved (the only source of infinite chi^2) for a listed property: small instance of MC_Resolved"""
    res = model_check(ctx, 'MC_Resolved', 'MC_Resolved_small.cfg', timeout=900, coverage=False)
    em = [b for b in res['emitted'] if isinstance(b, dict) and 'ext' in b]
    groups = {}
    for b in em:
        groups.setdefault((b['cfg']['c'], b['cfg']['k']), []).append(b)
    root = ctx.mkdtemp('rr_%s' % pid)
    for cols in pmap(lambda ch: [replay_group(k, bs, root, pid=pid) for k, bs in ch], sorted(groups.items()), chunks_per_proc=1):
        for col in cols:
            col.merge_into(ctx)
    ctx.notes['remove_resolved_behaviours'] = len(em)


def run(ctx):
    res = model_check(ctx, 'MC_Resolved', 'MC_Resolved.cfg', timeout=1800, coverage=False)
    em = [b for b in res['emitted'] if isinstance(b, dict) and 'ext' in b]
    if not em:
        raise MachineryError('no behaviours emitted')
    ctx.notes['mc_constants'] = '2 cubes of 3 models (point source, extended, uniform surface brightness ...), 2 extinction patterns, all 36 flag pairs x 3 values x 2 weights x 2 penalties, distances 1/10/100 pc, apertures 1" and 2"'
    ctx.notes['behaviours_emitted'] = len(em)
    ctx.notes['observation'] = 'TLC shows that a pure point source is classed as extended at the nearest distance (radius finder applied after the d^-2 scaling); see MC_Resolved.tla'
    ctx.sample({'behaviour': em[len(em) // 2]})
    groups = {}
    for b in em:
        groups.setdefault((b['cfg']['c'], b['cfg']['k']), []).append(b)
    root = ctx.mkdtemp('rr')
    for cols in pmap(lambda ch: [replay_group(k, bs, root) for k, bs in ch], sorted(groups.items()), chunks_per_proc=1):
        for col in cols:
            col.merge_into(ctx)
