"""C17 -- plotted model SEDs are the fitted models.

spec/Plot.tla (curves per display mode, draw order, which curve passes through which filter's
prediction) replayed through Fitter.fit on real cube packages fitted at tabulated wavelengths and
plot(..., output_dir=None): segments of the returned LineCollection.
"""
import math
import os
import random
import shutil
import tempfile

import numpy as np

from .common import model_check, MachineryError, pmap, Collector
from . import fitworld as fw
from . import pkgworld as pw

WAV = [0.8, 1.6, 3.2, 6.4, 12.8]
FILT_W = [1, 2, 4]                      # indices into WAV of the fitted wavelengths
APS_AU = [100.0, 1000.0, 10000.0, 100000.0]
NM = 6
CLIGHT = 299792458.0


def val(m, a, w):
    return (2.0 + m) * (1.0 + 0.5 * w) ** ((m % 3) - 1) * (1.0 + 0.3 * a) * 10.0


class PlotWorld(object):
    def __init__(self, root, multi, aps_arcsec, seed):
        from astropy import units as u
        self.dir = tempfile.mkdtemp(dir=root)
        rng = random.Random(seed)
        self.names = ['pm_%s%02d' % ('qdzakx'[(i * 5 + seed) % 6], i) for i in range(NM)]      # deliberately NOT in sorted order
        pw.build_cube(self.dir, self.names, WAV, APS_AU if multi else None, val, lambda m, a, w: 0.1 * val(m, a, w),
                      order=rng.choice(['asc', 'desc']), aperture_dependent=multi, logd_step=0.2)
        from sedfitter.extinction import Extinction
        law = Extinction()
        # the law is tabulated in a seed-chosen representation (the pattern k does not depend on it, C14); results passed as a
        # FILE carry the law through a pickle
        wu = [u.micron, u.nm, u.cm, u.angstrom][seed % 4]
        cu = [u.cm ** 2 / u.g, u.m ** 2 / u.kg][(seed // 4) % 2]
        law.wav = (np.array([0.3, 0.55, 1.0, 3.0, 10.0, 30.0]) * u.micron).to(wu)
        law.chi = (np.array([9.0, 5.0, 2.0, 0.7, 0.3, 0.1]) * u.cm ** 2 / u.g).to(cu)
        self.law = law
        self.order = rng.sample(range(3), 3)          # the filters are listed in a seed-chosen order, not by wavelength
        self.filt_w = [FILT_W[i] for i in self.order]
        self.filters = [WAV[i] * u.micron for i in self.filt_w]
        with fw.quiet():
            from sedfitter.fit import Fitter
            self.fitter = Fitter(self.filters, np.array(aps_arcsec, dtype=float) * u.arcsec, self.dir, extinction_law=law, av_range=(-2.0, 4.0),
                                 distance_range=np.array([1.0, 3.0]) * u.kpc, use_memmap=bool(seed % 2))

    def close(self):
        shutil.rmtree(self.dir, ignore_errors=True)


def replay_chunk(items, root, seed):
    from sedfitter import plot
    from sedfitter.fit_info import FitInfoFile
    from sedfitter.source import Source
    col = Collector()
    worlds = {}
    try:
        for bi, b in items:
            st = b['st']
            key = (st['multi'], tuple(st['aps']))
            if key not in worlds:
                worlds[key] = PlotWorld(root, st['multi'], st['aps'], seed + len(worlds))
            w = worlds[key]
            rng = random.Random(seed * 53 + bi)
            from astropy import units as u_
            kk = np.asarray(w.law.get_av(np.array([WAV[i] for i in w.filt_w]) * u_.micron))
            m0 = rng.randrange(NM)
            nsrc = 1 + (bi % 3)              # one plot() call covers 1-3 sources (often sharing their best model)
            srcs = []
            for si in range(nsrc):
                s = Source()
                s.name = 'plt_%d_%d' % (bi, si)
                s.x = 0.0
                s.y = 0.0
                s.valid = np.array([1, 1, 1])
                s.flux = np.array([val(m0, 1, i) * rng.uniform(0.8, 1.25) * 0.2 for i in w.filt_w])
                s.flux = s.flux * 10.0 ** (rng.choice([0.0, 1.0, 2.5, -1.5]) * kk)    # reddened (or bluer than the models: negative A_V)
                s.error = 0.1 * s.flux
                srcs.append(s)
            desc = {'behaviour': b, 'wavelengths_um': [WAV[i] for i in w.filt_w], 'sources_in_one_call': nsrc}
            try:
                infos = [w.fitter.fit(s) for s in srcs]
                preds = [np.array(i_.model_fluxes)[:st['nsel']] for i_ in infos]
                inp = infos[0] if nsrc == 1 else infos
                if st['form'] == 'file':
                    p = os.path.join(w.dir, 'fit_%d.fitinfo' % bi)
                    fo = FitInfoFile(p, 'w')
                    for i_ in infos:
                        fo.write(i_)
                    fo.close()
                    inp = p
                with fw.quiet():
                    figs = plot(inp, output_dir=None, select_format=('N', st['nsel']), sed_type=st['mode'], memmap=bool(bi % 2))
                allsegs = [figs[s.name]['lines'].get_segments() for s in srcs]
            except Exception as e:
                sig = 'C17:raised:%s:%s' % (st['mode'], type(e).__name__)
                if 'RGBA' in repr(e):
                    sig = 'C17:invalid_rgba_for_single_colour_modes'
                col.violation(sig, 'plot(sed_type=%r, %d fits, filter apertures %r arcsec, %s-aperture package, %s input) raised %r'
                              % (st['mode'], st['nsel'], st['aps'], 'multi' if st['multi'] else 'single', st['form'], e), desc)
                continue
            for si in range(nsrc):
                segs, pred, info, s = allsegs[si], preds[si], infos[si], srcs[si]
                col.replayed += 1
                curves = b['curves']
                if len(segs) != len(curves):
                    col.violation('C17:curve_count', 'sed_type=%r, %d selected fits, filter apertures %r: %d curves drawn, spec %d'
                                  % (st['mode'], st['nsel'], st['aps'], len(segs), len(curves)), desc)
                    break
                bad = None

                def mismatch(ci, cv):
                    """None if observed curve ci passes through every predicted flux the spec curve cv has to pass through"""
                    seg = np.asarray(segs[ci])
                    r = cv['rank'] - 1
                    for f, fw_i in enumerate(w.filt_w):
                        shown_for_f = (cv['ap'] == 0) or (cv['ap'] == st['aps'][f]) or (not st['multi'])
                        if not shown_for_f:
                            continue
                        k = int(np.argmin(np.abs(seg[:, 0] - WAV[fw_i])))
                        if abs(seg[k, 0] - WAV[fw_i]) > 1e-9:
                            return 'curve %d has no point at %g um' % (ci, WAV[fw_i])
                        nu = CLIGHT / (WAV[fw_i] * 1e-6)
                        want = pred[r, f] - 26.0 + math.log10(nu)
                        got = math.log10(seg[k, 1]) if seg[k, 1] > 0 else float('nan')
                        if not abs(got - want) <= 2e-3:
                            return ('curve %d at %g um: log10 %.5f, the fit ranked %d (aperture %s) predicts %.5f (model %s, A_V %.3f, scale %.3f)'
                                    % (ci, WAV[fw_i], got, cv['rank'], cv['ap'] or 'own', want, str(info.model_name[r]).strip(), info.av[r], info.sc[r]))
                    return None

                def unmatched(obs_idx, exp_idx):
                    """perfect matching between observed curves and the spec's curves (the ORDER of the curves of one fit, and of the
                    fits other than the best, is not part of C17); returns the first spec curve left without a partner, or None"""
                    ok = {e: [o for o in obs_idx if mismatch(o, curves[e]) is None] for e in exp_idx}
                    partner = {}

                    def augment(e, seen):
                        for o in ok[e]:
                            if o in seen:
                                continue
                            seen.add(o)
                            if o not in partner or augment(partner[o], seen):
                                partner[o] = e
                                return True
                        return False
                    for e in exp_idx:
                        if not augment(e, set()):
                            return e
                    return None
                n_best = sum(1 for cv in curves if cv['rank'] == 1)
                best_e = [i for i, cv in enumerate(curves) if cv['rank'] == 1]
                rest_e = [i for i, cv in enumerate(curves) if cv['rank'] != 1]
                n = len(curves)
                e_bad = unmatched(list(range(n - n_best, n)), best_e)           # the best fit is drawn last
                if e_bad is not None:
                    bad = 'the last %d curve(s) are not the best fit: %s' % (n_best, mismatch(n - n_best + best_e.index(e_bad), curves[e_bad]))
                else:
                    e_bad = unmatched(list(range(n - n_best)), rest_e)
                    if e_bad is not None:
                        bad = 'no curve for the fit ranked %d, aperture %s: e.g. %s' % (curves[e_bad]['rank'], curves[e_bad]['ap'] or 'own', mismatch(min(e_bad, n - n_best - 1), curves[e_bad]))
                if bad:
                    col.violation('C17:curve_value:%s' % st['mode'], 'sed_type=%r, %d fits, filter apertures %r arcsec, %s-aperture package, %s input, source %d of %d in one call: %s'
                                  % (st['mode'], st['nsel'], st['aps'], 'multi' if st['multi'] else 'single', st['form'], si + 1, nsrc, bad), desc)
                    break
    finally:
        for w in worlds.values():
            w.close()
    return col


def run(ctx):
    res = model_check(ctx, 'Plot', 'MC_Plot.cfg', timeout=600, coverage=False)
    em = [b for b in res['emitted'] if isinstance(b, dict) and 'curves' in b]
    if not em:
        raise MachineryError('no behaviours emitted')
    ctx.notes['mc_constants'] = '1..5 selected fits x 4 display modes x 5 filter-aperture patterns (all equal, two equal, all distinct, unsorted, largest first) x single/multi-aperture package x object/file input'
    ctx.notes['behaviours_emitted'] = len(em)
    ctx.notes['exhaustive'] = True
    ctx.sample({'behaviour': em[len(em) // 2]})
    root = ctx.mkdtemp('plot')
    reps = 1 if not ctx.thorough else 5
    items = [(i + 1000 * r, b) for r in range(reps) for i, b in enumerate(em)]
    items.sort(key=lambda t: (t[1]['st']['multi'], t[1]['st']['aps']))
    for col in pmap(lambda c: replay_chunk(c, root, ctx.seed), items, chunks_per_proc=1):
        col.merge_into(ctx)
    ctx.assumptions += ['tolerance 2e-3 dex (KPC = 3.086e21 in plot.py, 0.999 x largest-aperture clamp)',
                        "the documented but unimplemented sed_type 'smallest' is outside the property; nothing is claimed about what reaches the canvas"]
