"""X05 (extension) -- attribute protocols of Source, ConvolvedFluxes and SED (spec/ObjProto.tla): every history of MaxOps setter calls
over the value menus is replayed on a real object; the outcome of every call (accepted / which exception class) and the final
state are compared."""
import os

import numpy as np

from .common import model_check, run_tlc, MachineryError, pmap, Collector


def src_value(val):
    k = val['k']
    if k == 'none':
        return None
    if k in ('seq', 'badrange'):
        return list(val['v'])
    if k == 'nonint':
        return [x + 0.5 for x in val['v']]
    if k == 'scalar':
        return 3.0
    if k == 'twod':
        return [[1.0]]
    raise ValueError(k)


def conv_value(attr, val):
    from astropy import units as u
    k = val['k']
    if k == 'none':
        return None
    if attr == 'model_names':
        return ['m%d' % i for i in range(val['n'])] if k == 'seq' else 'abc'
    if attr == 'apertures':
        a = np.arange(1, val['n'] + 1, dtype=float)
        return a * u.au if k == 'seq' else (a if k == 'bare' else a * u.s)
    shape = tuple(val['s'])
    a = np.arange(int(np.prod(shape)), dtype=float).reshape(shape) + 1.0
    return {'arr': a * u.mJy, 'oned': a * u.mJy, 'bare': a, 'wrongtype': a * u.s}[k]


def sed_value(attr, val):
    from astropy import units as u
    k = val['k']
    if k == 'none':
        return None
    if attr in ('wav', 'nu'):
        a = np.linspace(1.0, 2.0, val['n'])
        good = u.micron if attr == 'wav' else u.THz
        return a * good if k == 'seq' else (a if k == 'bare' else a * (u.s if attr == 'wav' else u.m))
    if attr == 'apertures':
        return conv_value('apertures', val)
    shape = tuple(val['s'])
    a = np.arange(int(np.prod(shape)), dtype=float).reshape(shape) + 1.0
    return {'arr': a * u.mJy, 'oned': a * u.mJy, 'bare': a}[k]


def outcome(fn):
    try:
        fn()
        return 'ok'
    except ValueError:
        return 'ValueError'
    except TypeError:
        return 'TypeError'
    except Exception as e:
        return type(e).__name__


def tolist(a):
    return None if a is None else [float(x) for x in np.asarray(a).reshape(-1)]


def replay_chunk(behs):
    from sedfitter.source import Source
    from sedfitter.convolved_fluxes import ConvolvedFluxes
    col = Collector()
    for b in behs:
        col.replayed += 1
        bad = None
        if b['kind'] == 'source':
            s = Source()
            for i, h in enumerate(b['hist']):
                o = outcome(lambda: setattr(s, h['attr'], src_value(h['val'])))
                if (o == 'ok') != (h['out'] == 'ok'):
                    bad = 'call %d: Source.%s = %r %s, spec: %s' % (i + 1, h['attr'], src_value(h['val']), 'accepted' if o == 'ok' else 'raised ' + o, h['out'])
                    break
                if o != h['out']:
                    col.extra['exception_class_differs'] = col.extra.get('exception_class_differs', 0) + 1
            if not bad:
                st = b['src']
                want = {a: (None if st[a]['k'] == 'none' else [float(x) for x in st[a]['v']]) for a in ('valid', 'flux', 'error')}
                got = {'valid': tolist(s.valid), 'flux': tolist(s.flux), 'error': tolist(s.error)}
                nw = None if st['n_wav'] == -1 else st['n_wav']
                if got != want or s.n_wav != nw or (s.valid is not None and int(s.n_data) != st['n_data']):
                    bad = 'final state valid/flux/error %r n_wav %r n_data %r, spec %r n_wav %r n_data %r' % (
                        got, s.n_wav, None if s.valid is None else int(s.n_data), want, nw, st['n_data'])
        elif b['kind'] == 'sed':
            from sedfitter.sed import SED
            sd = SED()
            for i, h in enumerate(b['hist']):
                o = outcome(lambda: setattr(sd, h['attr'], sed_value(h['attr'], h['val'])))
                if (o == 'ok') != (h['out'] == 'ok'):
                    bad = 'call %d: SED.%s = <%s %r> %s, spec: %s' % (i + 1, h['attr'], h['val']['k'], h['val'].get('s', h['val'].get('n')),
                                                                    'accepted' if o == 'ok' else 'raised ' + o, h['out'])
                    break
                if o != h['out']:
                    col.extra['exception_class_differs'] = col.extra.get('exception_class_differs', 0) + 1
            if not bad:
                st = b['sed']
                got = {'wav_len': -1 if sd.wav is None else len(sd.wav), 'nu_len': -1 if sd.nu is None else len(sd.nu), 'n_ap': int(sd.n_ap),
                       'apertures_none': sd.apertures is None, 'flux': [] if sd.flux is None else list(sd.flux.shape)}
                want = {'wav_len': st['wav_len'], 'nu_len': st['nu_len'], 'n_ap': st['n_ap'], 'apertures_none': bool(st['apertures_none']), 'flux': list(st['flux'])}
                if got != want:
                    bad = 'final state %r, spec %r' % (got, want)
        else:
            c = ConvolvedFluxes()
            for i, h in enumerate(b['hist']):
                o = outcome(lambda: setattr(c, h['attr'], conv_value(h['attr'], h['val'])))
                if (o == 'ok') != (h['out'] == 'ok'):
                    bad = 'call %d: ConvolvedFluxes.%s = <%s %r> %s, spec: %s' % (i + 1, h['attr'], h['val']['k'], h['val'].get('s', h['val'].get('n')),
                                                                                'accepted' if o == 'ok' else 'raised ' + o, h['out'])
                    break
                if o != h['out']:
                    col.extra['exception_class_differs'] = col.extra.get('exception_class_differs', 0) + 1
            if not bad:
                st = b['conv']
                got = {'n_models': -1 if c.n_models is None else int(c.n_models), 'n_ap': int(c.n_ap), 'apertures_none': c.apertures is None,
                       'flux': [] if c.flux is None else list(c.flux.shape), 'error': [] if c.error is None else list(c.error.shape)}
                want = {'n_models': st['n_models'], 'n_ap': st['n_ap'], 'apertures_none': bool(st['apertures_none']), 'flux': list(st['flux']), 'error': list(st['error'])}
                if got != want:
                    bad = 'final state %r, spec %r' % (got, want)
                elif b['stale']:
                    col.extra['stale_shapes_reached'] = col.extra.get('stale_shapes_reached', 0) + 1
        if bad:
            col.violation('X05:%s' % b['kind'], '%s after %r: %s' % (b['kind'], [(h['attr'], h['val']['k']) for h in b['hist']], bad), b)
    return col


def run(ctx):
    q = not ctx.thorough
    cfg = ctx.tmp('MC_ObjProto_run.cfg')
    with open(cfg, 'w') as f:
        f.write('SPECIFICATION Spec\nCONSTANTS\n  MaxOps = %d\nINVARIANT LengthsAgree\nINVARIANT FlagsLegal\nINVARIANT SourceAcceptance\n'
                'INVARIANT FluxNeedsNames\nINVARIANT AxisLengthsAgree\nINVARIANT SedFluxNeedsAxis\nINVARIANT EmitInv\nPROPERTY RefusedIsNoop\nPROPERTY ShapeConsistentUnlessDimsReset\nCHECK_DEADLOCK FALSE\n' % (3 if q else 4))
    res = model_check(ctx, 'ObjProto', cfg, timeout=2400, coverage=False)
    em = [b for b in res['emitted'] if isinstance(b, dict) and 'hist' in b]
    if not em:
        raise MachineryError('no behaviours emitted')
    # the two named behaviours must be REACHABLE (otherwise the spec describes them vacuously)
    r2 = run_tlc(ctx, 'ObjProto', 'MC_ObjProto_reach.cfg', timeout=600, coverage=False, extra=['-continue'], workers=4)
    out = r2['out']
    if any('Invariant %s is violated' % i_ not in out for i_ in ('NeverSelfBlocked', 'ShapeConsistent', 'SedNeverSelfBlocked')):
        raise MachineryError('named behaviours SelfBlocking / ShapeCanGoStale are not reachable in the model')
    ctx.notes['mc_constants'] = 'every history of %d setter calls: Source valid x 11 values, flux/error x 7; ConvolvedFluxes model_names x 4, apertures x 5, flux/error x 8; SED wav/nu x 5, apertures x 5, flux x 7' % (3 if q else 4)
    ctx.notes['behaviours_emitted'] = len(em)
    ctx.notes['named_behaviours_reachable'] = ['SelfBlocking', 'ShapeCanGoStale']
    ctx.sample({'behaviour': em[len(em) // 2]})
    for col in pmap(replay_chunk, em):
        col.merge_into(ctx)
