"""Shared machinery: context, TLC runner, evidence, violations, known findings.

Run with /venv/bin/python.  sedfitter is imported from $VERIF_REPO (default /repo).
Exit codes of a check: 0 held, 1 violation, 2 machinery failure.
"""
from __future__ import annotations

import atexit
import hashlib
import json
import os
import re
import shutil
import subprocess
import sys
import tempfile
import time

VERIF = os.path.dirname(os.path.dirname(os.path.abspath(__file__)))
SPEC = os.path.join(VERIF, 'spec')
REPO = os.environ.get('VERIF_REPO', '/repo')
NCPU = int(os.environ.get('VERIF_WORKERS', '16'))


class MachineryError(Exception):
    """TLC overflow / parse error / timeout: never a verdict."""


def setup_import_path():
    if sys.path[0] != REPO:
        sys.path.insert(0, REPO)
    os.environ.setdefault('MPLBACKEND', 'Agg')
    import warnings
    warnings.filterwarnings('ignore')


class Ctx(object):
    def __init__(self, pid, tier, seed):
        self.pid = pid
        self.tier = tier
        self.seed = seed
        self.t0 = time.time()
        self.scratch = tempfile.mkdtemp(prefix='sedverif_%s_' % pid)
        atexit.register(shutil.rmtree, self.scratch, True)
        # every temporary file of the run -- including the ones the LIBRARY creates with a bare mkdtemp() (the memory-mapped
        # flux tables of Models.read, never removed by it) and TLC's -- lives under the scratch directory and goes with it
        os.environ['TMPDIR'] = self.scratch
        tempfile.tempdir = self.scratch
        self.violations = []       # unlisted violations
        self.known_hits = []       # listed findings that fired
        self.states = 0
        self.distinct = 0
        self.transitions = 0
        self.replayed = 0          # TLC behaviours replayed into the code
        self.traces_ok = 0         # recorded traces accepted by TLC
        self.traces_total = 0
        self.samples = []
        self.notes = {}
        self.assumptions = []
        self.coverage_actions = {}
        self.tlc_runs = []
        self._known = load_known()
        self._n_viol_files = 0

    @property
    def thorough(self):
        return self.tier == 'thorough'

    def tmp(self, name):
        p = os.path.join(self.scratch, name)
        return p

    def mkdtemp(self, prefix='d'):
        return tempfile.mkdtemp(prefix=prefix, dir=self.scratch)

    # -- verdicts ---------------------------------------------------------
    def violation(self, signature, what, replay):
        """Report one violation.  `signature` identifies the failing input class / call
        site; if it is listed in known_findings.json it is a KNOWN-FINDING, otherwise a
        VIOLATION with a replay file."""
        for k in self._known.get('findings', []):
            if k['property'] == self.pid and re.fullmatch(k['signature'], signature):
                if (self.pid, k['signature']) not in [(p, s) for p, s, _ in self.known_hits]:
                    self.known_hits.append((self.pid, k['signature'], k['what']))
                    print('KNOWN-FINDING: property=%s %s' % (self.pid, k['what']))
                return
        self.violations.append(signature)
        if self._n_viol_files >= 5:
            return
        self._n_viol_files += 1
        rdir = os.environ.get('VERIF_REPLAY_DIR', os.path.join(VERIF, 'replays'))
        os.makedirs(rdir, exist_ok=True)
        doc = {'property': self.pid, 'tier': self.tier, 'seed': self.seed,
               'signature': signature, 'what': what, 'replay': replay}
        blob = json.dumps(doc, indent=1, default=_jd, sort_keys=True)
        h = hashlib.sha1(blob.encode()).hexdigest()[:10]
        path = os.path.join(rdir, '%s_%s.json' % (self.pid, h))
        with open(path, 'w') as f:
            f.write(blob)
        print('VIOLATION property=%s replay=%s' % (self.pid, path))
        print('  signature: %s' % signature)
        print('  what: %s' % (what if len(str(what)) < 2000 else str(what)[:2000] + '...'))
        sys.stdout.flush()

    def sample(self, s, cap=4):
        if len(self.samples) < cap:
            self.samples.append(s)

    # -- evidence ---------------------------------------------------------
    def write_evidence(self):
        if os.environ.get('VERIF_NO_EVIDENCE'):
            return {'wall_s': round(time.time() - self.t0, 2)}
        cov = {
            'states': int(self.distinct),
            'transitions': int(max(self.transitions, self.states)),
            'states_generated': int(self.states),
            'traces_validated_against_impl': int(self.replayed + self.traces_ok),
            'behaviours_replayed_spec_to_code': int(self.replayed),
            'traces_accepted_code_to_spec': int(self.traces_ok),
            'traces_recorded': int(self.traces_total),
            'samples': self.samples or ['(none)'],
            'tlc_runs': self.tlc_runs,
            'action_coverage': self.coverage_actions,
            'known_findings_hit': [w for _, _, w in self.known_hits],
        }
        cov.update(self.notes)
        ev = {
            'property_id': self.pid,
            'tier': self.tier,
            'seed': int(self.seed),
            'level': 'model_checking',
            'coverage': cov,
            'assumptions': self.assumptions,
            'wall_s': round(time.time() - self.t0, 2),
            'violations': len(self.violations),
        }
        os.makedirs(os.path.join(VERIF, 'evidence'), exist_ok=True)
        with open(os.path.join(VERIF, 'evidence', '%s.json' % self.pid), 'w') as f:
            json.dump(ev, f, indent=1, default=_jd)
        return ev


def _jd(o):
    try:
        import numpy as np
        if isinstance(o, np.ndarray):
            return o.tolist()
        if isinstance(o, (np.integer,)):
            return int(o)
        if isinstance(o, (np.floating,)):
            return float(o)
        if isinstance(o, (np.bool_,)):
            return bool(o)
    except Exception:
        pass
    if isinstance(o, (set, frozenset)):
        return sorted(o, key=repr)
    if isinstance(o, bytes):
        return o.decode('latin1')
    from fractions import Fraction
    if isinstance(o, Fraction):
        return [o.numerator, o.denominator]
    return repr(o)


def load_known():
    p = os.path.join(VERIF, 'known_findings.json')
    if os.path.exists(p):
        with open(p) as f:
            return json.load(f)
    return {'findings': [], 'fixed': []}


# ---------------------------------------------------------------------------
# TLC
# ---------------------------------------------------------------------------

_RE_STATES = re.compile(r'(\d+) states generated, (\d+) distinct states found, (\d+) states left on queue')
_RE_COV = re.compile(r'^<(\w+) line (\d+), col \d+ to line \d+, col \d+ of module (\w+)>: (\d+):(\d+)')


def run_tlc(ctx, module, cfg, workers=None, timeout=900, env=None, simulate=None,
            extra=(), coverage=True, want_emitted=True, label=None, cwd=None):
    """Run TLC on spec/<module>.tla with spec/<cfg>.  Returns dict with states,
    distinct, emitted (list of decoded JSON values printed by PrintT(ToJson(..))),
    prints (other PrintT values as raw strings), ok, out."""
    workers = workers or NCPU
    meta = ctx.mkdtemp('meta')
    cmd = ['tlc', '-workers', str(workers), '-metadir', meta, '-noGenerateSpecTE',
           '-config', cfg]
    if coverage and not simulate:
        cmd += ['-coverage', '1']
    if simulate:
        cmd += ['-simulate', simulate, '-seed', str(ctx.seed)]
    cmd += list(extra) + [module]
    e = dict(os.environ)
    if env:
        e.update(env)
    if 'java.io.tmpdir' not in e.get('JAVA_TOOL_OPTIONS', ''):
        e['JAVA_TOOL_OPTIONS'] = (e.get('JAVA_TOOL_OPTIONS', '') + ' -Djava.io.tmpdir=' + ctx.scratch).strip()
    t0 = time.time()
    try:
        p = subprocess.run(cmd, cwd=cwd or SPEC, env=e, stdout=subprocess.PIPE, stderr=subprocess.STDOUT,
                           timeout=timeout, text=True)
        out = p.stdout
        rc = p.returncode
    except subprocess.TimeoutExpired as te:
        subprocess.run(['pkill', '-f', meta], check=False)
        raise MachineryError('TLC timeout after %ss on %s/%s' % (timeout, module, cfg))
    finally:
        shutil.rmtree(meta, ignore_errors=True)
    res = {'module': module, 'cfg': cfg, 'rc': rc, 'out': out, 'wall_s': round(time.time() - t0, 2)}
    m = None
    for m in _RE_STATES.finditer(out):
        pass
    if m:
        res['states'] = int(m.group(1))
        res['distinct'] = int(m.group(2))
    else:
        res['states'] = res['distinct'] = 0
    emitted, prints = [], []
    if want_emitted:
        for line in out.splitlines():
            line = line.strip()
            if len(line) > 1 and line[0] == '"' and line[-1] == '"':
                try:
                    s = json.loads(line)
                    if s[:1] in '{[':
                        emitted.append(json.loads(s))
                    else:
                        prints.append(s)
                except Exception:
                    prints.append(line)
            elif line.startswith('<<') or line.startswith('['):
                prints.append(line)
    res['emitted'] = emitted
    res['prints'] = prints
    cov = {}
    for line in out.splitlines():
        mm = _RE_COV.match(line.strip())
        if mm:
            cov[mm.group(1)] = cov.get(mm.group(1), 0) + int(mm.group(4))
    res['coverage'] = cov
    bad = None
    if 'Overflow' in out or 'overflow' in out:
        bad = 'TLC integer overflow'
    elif 'Error:' in out and 'Invariant' not in out and 'violated' not in out:
        bad = 'TLC error'
    res['invariant_violated'] = ('is violated' in out) or ('Invariant' in out and 'violated' in out)
    res['ok'] = (rc == 0) and not res['invariant_violated'] and bad is None
    if bad and not res['invariant_violated']:
        tail = '\n'.join(out.splitlines()[-40:])
        raise MachineryError('%s in %s/%s:\n%s' % (bad, module, cfg, tail))
    if rc != 0 and not res['invariant_violated']:
        tail = '\n'.join(out.splitlines()[-40:])
        raise MachineryError('TLC rc=%s in %s/%s:\n%s' % (rc, module, cfg, tail))
    ctx.states += res['states']
    ctx.distinct += res['distinct']
    ctx.transitions += res['states']
    ctx.tlc_runs.append({'run': label or ('%s/%s' % (module, cfg)), 'states_generated': res['states'],
                         'distinct': res['distinct'], 'emitted': len(emitted), 'wall_s': res['wall_s'],
                         'workers': workers, 'simulate': simulate})
    for k, v in cov.items():
        ctx.coverage_actions[k] = ctx.coverage_actions.get(k, 0) + v
    return res


def tlc_violation_excerpt(out, n=60):
    lines = out.splitlines()
    for i, l in enumerate(lines):
        if 'violated' in l or 'Error:' in l:
            return '\n'.join(lines[i:i + n])
    return '\n'.join(lines[-n:])


def model_check(ctx, module, cfg, **kw):
    """Model-check MC config; a violated invariant of the *spec* on the unchanged spec is a
    machinery failure (the design is wrong), not a verdict about the code."""
    res = run_tlc(ctx, module, cfg, **kw)
    if res['invariant_violated']:
        raise MachineryError('spec-level property violated in %s/%s (the model itself is inconsistent):\n%s'
                             % (module, cfg, tlc_violation_excerpt(res['out'])))
    return res


def validate_traces(ctx, module, cfg, traces, timeout=900, chunk=2000, extra_env=None, extra_files=None):
    """Batched trace validation.  `traces` is a list of traces; each trace is a JSON value
    (normally a list of event records).  The Trace spec must
      * read them with JsonDeserialize(IOEnv.TRACE_FILE),
      * PrintT(ToJson([tid |-> .., ok |-> BOOLEAN, viol |-> ..])) exactly once per trace.
    Returns list of (index, viol) for rejected traces.  A trace with no verdict line is
    a machinery failure."""
    rejected = []
    cwd = None
    if extra_files:
        cwd = ctx.mkdtemp('spec')
        for fn in os.listdir(SPEC):
            if fn.endswith('.tla') or fn.endswith('.cfg'):
                shutil.copy(os.path.join(SPEC, fn), cwd)
        for fn, content in extra_files.items():
            with open(os.path.join(cwd, fn), 'w') as f:
                f.write(content)
    for base in range(0, len(traces), chunk):
        part = traces[base:base + chunk]
        fd, path = tempfile.mkstemp(prefix='traces_%s_%d_' % (module, base), suffix='.json', dir=ctx.scratch)
        os.close(fd)
        with open(path, 'w') as f:
            json.dump(part, f)
        env = {'TRACE_FILE': path}
        if extra_env:
            env.update(extra_env)
        res = run_tlc(ctx, module, cfg, workers=1, timeout=timeout, env=env, coverage=False, cwd=cwd,
                      label='%s/%s[%d..%d]' % (module, cfg, base, base + len(part)))
        if res['invariant_violated']:
            raise MachineryError('trace spec invariant violated:\n' + tlc_violation_excerpt(res['out']))
        seen = {}
        for v in res['emitted']:
            if isinstance(v, dict) and 'tid' in v:
                t = int(v['tid'])
                # a trace may print several verdict lines if the spec branches (admitted
                # nondeterminism): it is accepted iff SOME branch explains it
                if t in seen and seen[t]['ok']:
                    continue
                seen[t] = v
        for i in range(len(part)):
            v = seen.get(i + 1)
            if v is None:
                raise MachineryError('no verdict for trace %d of %s (TLC output tail):\n%s'
                                     % (base + i, module, '\n'.join(res['out'].splitlines()[-30:])))
            if v['ok']:
                ctx.traces_ok += 1
            else:
                rejected.append((base + i, v.get('viol')))
        ctx.traces_total += len(part)
        os.remove(path)
    return rejected


# ---------------------------------------------------------------------------
# numbers
# ---------------------------------------------------------------------------

def close(x, y, rel=1e-6, abs_=1e-9):
    """float/Fraction comparison used by every replay: relative 1e-6 or absolute 1e-9."""
    import math
    x = float(x)
    y = float(y)
    if math.isnan(x) or math.isnan(y):
        return math.isnan(x) and math.isnan(y)
    if math.isinf(x) or math.isinf(y):
        return x == y
    return abs(x - y) <= max(abs_, rel * max(abs(x), abs(y)))


def dec7(x):
    """<<M, e>> with 7 significant digits: x ~ M * 10^e, |M| < 10^7 (ints only, for TLC)."""
    import math
    x = float(x)
    if x == 0 or abs(x) < 1e-300:
        return [0, 0]
    e = int(math.floor(math.log10(abs(x)))) - 6
    m = int(round(x / 10.0 ** e))
    if abs(m) >= 10 ** 7:
        m = int(round(m / 10.0))
        e += 1
    return [m, e]


_PMAP_FN = None


def _pmap_call(chunk):
    return _PMAP_FN(chunk)


def pmap(fn, items, nproc=None, chunks_per_proc=4):
    """fork-based parallel map over chunks of `items`; fn(list_of_items) -> result.
    fn may be a closure (it is inherited through fork, not pickled)."""
    import multiprocessing as mp
    global _PMAP_FN
    nproc = nproc or NCPU
    items = list(items)
    if not items:
        return []
    nchunks = max(1, min(len(items), nproc * chunks_per_proc))
    chunks = [items[i::nchunks] for i in range(nchunks)]
    if nproc == 1 or len(items) < 4:
        return [fn(c) for c in chunks]
    _PMAP_FN = fn
    ctxm = mp.get_context('fork')
    with ctxm.Pool(nproc) as pool:
        return pool.map(_pmap_call, chunks, chunksize=1)


class Collector(object):
    """what a replay worker returns to the parent: counts and violation tuples"""
    def __init__(self):
        self.replayed = 0
        self.viol = []
        self.extra = {}

    def violation(self, signature, what, replay):
        if len(self.viol) < 50:
            self.viol.append((signature, what, replay))

    def merge_into(self, ctx):
        ctx.replayed += self.replayed
        for sig, what, rp in self.viol:
            ctx.violation(sig, what, rp)
        for k, v in self.extra.items():
            ctx.notes[k] = ctx.notes.get(k, 0) + v


def main_dispatch(registry):
    """bin/check entry: check <Cxx> [quick|thorough]"""
    import traceback
    args = sys.argv[1:]
    if not args:
        print('usage: check <property> [quick|thorough]')
        sys.exit(2)
    pid = args[0]
    tier = args[1] if len(args) > 1 and args[1] in ('quick', 'thorough') else os.environ.get('VERIF_TIER', 'quick')
    seed = int(os.environ.get('VERIF_SEED', '0'))
    if pid not in registry:
        print('unknown property %s' % pid)
        sys.exit(2)
    setup_import_path()
    ctx = Ctx(pid, tier, seed)
    try:
        mod = __import__(registry[pid], fromlist=['run'])
        getattr(mod, 'run_' + pid, getattr(mod, 'run', None))(ctx)
    except MachineryError as e:
        if ctx.violations:
            print('NOTE property=%s: machinery failure after %d violation(s) had been reported: %s' % (pid, len(ctx.violations), str(e)[:500]))
            ctx.write_evidence()
            sys.exit(1)
        print('MACHINERY-FAILURE property=%s: %s' % (pid, e))
        ctx.notes['machinery_failure'] = str(e)[:2000]
        ctx.write_evidence()
        sys.exit(2)
    except Exception:
        if ctx.violations:
            # violations were already reported with replay files; a later harness exception on code
            # that already violates the property (e.g. the recorder meeting an impossible state) does
            # not turn the verdict into a machinery failure
            print('NOTE property=%s: harness exception after %d violation(s) had been reported' % (pid, len(ctx.violations)))
            traceback.print_exc()
            ctx.write_evidence()
            sys.exit(1)
        print('MACHINERY-FAILURE property=%s (harness exception)' % pid)
        traceback.print_exc()
        sys.exit(2)
    ev = ctx.write_evidence()
    print('%s %s: states=%d distinct=%d replayed=%d traces=%d/%d violations=%d known=%d wall=%.1fs' % (
        pid, tier, ctx.states, ctx.distinct, ctx.replayed, ctx.traces_ok, ctx.traces_total,
        len(ctx.violations), len(ctx.known_hits), ev['wall_s']))
    sys.exit(1 if ctx.violations else 0)
