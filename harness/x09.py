"""X09 (extension) -- utils/validator.py: the decision tables of validate_array / validate_scalar (spec/Validator.tla), every call
shape replayed on the real functions: accepted, TypeError or ValueError."""
import numpy as np

from .common import model_check, run_tlc, MachineryError, pmap, Collector


def value_of(c):
    from astropy import units as u
    if c['fn'] == 'scalar':
        x = {'neg': -2.5, 'zero': 0.0, 'pos': 3.5}[c['sign']]
        v = x if c['cont'] == 'scalar' else np.float64(x)
        if c['cont'] == 'ndarray':
            v = np.array(x)
    else:
        base = [1.0, 2.0, 3.0][:c['len']]
        v = {'list': list(base), 'tuple': tuple(base), 'scalar': 4.0, 'string': 'abc'}.get(c['cont'])
        if c['cont'] == 'ndarray':
            v = np.array(base) if c['ndim'] == 1 else np.ones((2, c['len']))
    if c['quantity'] != 'none':
        v = v * (u.micron if c['quantity'] == 'right' else u.s)
    return v


def replay_chunk(behs):
    from sedfitter.utils.validator import validate_array, validate_scalar
    col = Collector()
    for b in behs:
        c = b['call']
        v = value_of(c)
        ptype = 'length' if c['need_type'] else None
        col.replayed += 1
        try:
            if c['fn'] == 'array':
                validate_array('x', v, ndim=c['need_ndim'], shape=None if (c['need_len'] == 0 or c['need_ndim'] != 1) else (c['need_len'],), physical_type=ptype)
            else:
                validate_scalar('x', v, domain=None if c['domain'] == 'none' else c['domain'], physical_type=ptype)
            got = 'ok'
        except TypeError:
            got = 'TypeError'
        except ValueError:
            got = 'ValueError'
        except Exception as e:
            got = type(e).__name__
        if got != b['out']:
            col.violation('X09:%s' % c['fn'], 'validate_%s on %r: %s, spec %s' % (c['fn'], c, got, b['out']), b)
    return col


def run(ctx):
    res = model_check(ctx, 'Validator', 'MC_Validator.cfg', timeout=600, coverage=False)
    em = [b for b in res['emitted'] if isinstance(b, dict) and 'call' in b]
    if not em:
        raise MachineryError('no behaviours emitted')
    r2 = run_tlc(ctx, 'Validator', 'MC_Validator_reach.cfg', timeout=300, coverage=False, workers=2)
    if 'Invariant PlainNumbersAccepted is violated' not in r2['out']:
        raise MachineryError('named behaviour ScalarRejectsPlainNumbers is not reachable in the model')
    ctx.notes['mc_constants'] = 'validate_array: 5 containers x unit none/right/wrong x ndim x length x requirements; validate_scalar: plain / numpy numbers x units x 3 signs x 5 domains'
    ctx.notes['behaviours_emitted'] = len(em)
    ctx.notes['named_behaviours_reachable'] = ['ScalarRejectsPlainNumbers']
    ctx.sample({'behaviour': em[len(em) // 2]})
    for col in pmap(replay_chunk, em):
        col.merge_into(ctx)
