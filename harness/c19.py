"""C19 -- a fit output file cut short never yields a wrong record.

spec/Crash.tla (block stream, crash, reader as a state machine; TLC: every size pattern x every
cut) + Trace_Crash: EVERY truncation offset of real files written by FitInfoFile, outcome of the
real reader logged and validated.
"""
import os
import pickle
import random

import numpy as np

from .common import model_check, validate_traces, MachineryError, pmap
from . import fitworld as fw
from .fitkernel import World, names_for, rand_world, rand_source


def same_info(a, b):
    """NaN-aware equality of two FitInfo objects (records)"""
    pa, pb = fw.project_info(a), fw.project_info(b)
    if pa['names'] != pb['names'] or pa['ids'] != pb['ids']:
        return False
    for k in ('av', 'sc', 'chi2'):
        if not np.array_equal(np.array(pa[k]), np.array(pb[k]), equal_nan=True):
            return False
    if (pa['pred'] is None) != (pb['pred'] is None):
        return False
    if pa['pred'] is not None and not np.array_equal(np.array(pa['pred']), np.array(pb['pred']), equal_nan=True):
        return False
    sa, sb = a.source, b.source
    return (sa.name == sb.name and sa.x == sb.x and sa.y == sb.y and np.array_equal(sa.valid, sb.valid)
            and np.array_equal(sa.flux, sb.flux, equal_nan=True) and np.array_equal(sa.error, sb.error, equal_nan=True))


def meta_sizes(path):
    """sizes of the three metadata blocks (pickles) at the head of a fit file"""
    sizes = []
    with open(path, 'rb') as f:
        last = 0
        for _ in range(3):
            pickle.load(f)
            sizes.append(f.tell() - last)
            last = f.tell()
    return sizes


def record_sizes(infos, path_of):
    """size in bytes of the header and of each record AS THE WRITER LAYS THEM OUT (whatever they consist of: one pickle, several,
    length prefixes, raw blocks): files written with 1, 2, ... records differ by exactly one record, and a file holding the first
    record TWICE exceeds the file holding it once by that record's size -- which gives the header size without assuming anything
    about how the metadata is stored.  The spec's stream is <<header, 0, 0, record_1, ...>> (its three metadata blocks read as one)."""
    from sedfitter.fit_info import FitInfoFile

    def written(records, p):
        fo = FitInfoFile(p, 'w')
        for info in records:
            fo.write(info)
        fo.close()
        return os.path.getsize(p)
    lens = [written(infos[:k], path_of(k)) for k in range(1, len(infos) + 1)]
    twice = written([infos[0], infos[0]], path_of(1) + '.twice')
    os.remove(path_of(1) + '.twice')
    if len(infos) == 1:
        written(infos, path_of(1))
    rec1 = twice - lens[0]
    sizes = [lens[0] - rec1, 0, 0, rec1]
    prev = lens[0]
    for L in lens[1:]:
        sizes.append(L - prev)
        prev = L
    if min(sizes[0], *sizes[3:]) <= 0:
        raise MachineryError('cannot determine the layout of the fit file: sizes %r' % (sizes,))
    return sizes


def pickle_bounds(path):
    """end offset of every pickle in the file, whatever the record layout is"""
    out = []
    with open(path, 'rb') as f:
        while True:
            try:
                pickle.load(f)
            except Exception:          # end of file, or a layout that is not a plain sequence of pickles: use what was found
                break
            out.append(f.tell())
    return out


def one_file(sd, root, step, big=None):
    """write a real file with 1..4 records, cut it at every step-th offset (all if step=1).
    big = number of fits of a LARGE first record: the file is then cut at ~300 spread offsets, at every pickle boundary +-1
    and at every record boundary +-1 instead of everywhere"""
    from sedfitter.fit_info import FitInfoFile
    rng = random.Random(sd)
    nb, nm, K, grid, lo, hi = rand_world(rng, False)
    w = World(root, names_for(nm), grid, K, lo, hi)
    try:
        nrec = rng.randint(1, 4) if big is None else 2
        conv = rng.random() < 0.5
        infos = []
        path = os.path.join(w.dir, 'out.fitinfo')
        handmade = (sd % 2 == 1) or big is not None       # records built through the public FitInfo constructor with plain arrays
        prev = None
        for i in range(nrec):
            # a record often has exactly the byte size of the one before it (same number of fits, names of equal length)
            twin = prev is not None and big is None and rng.random() < 0.4
            srcd, keepn, nf0 = prev if twin else (rand_source(rng, nb, False), rng.randint(0, nm), rng.choice([0, 1, 3, 17, 60]))
            prev = (srcd, keepn, nf0)
            info = w.fit(fw.make_source(srcd, name='s%d' % i))
            if not conv:
                info.model_fluxes = None
            info.keep(('N', keepn))
            if handmade:
                from sedfitter.fit_info import FitInfo
                h_ = FitInfo(source=info.source)
                nf = nf0 if (big is None or i > 0) else big
                h_.av = np.linspace(0.5, 9.5, nf)
                h_.sc = -np.linspace(0.25, 2.0, nf)
                h_.chi2 = np.sort(rng.random() * 50.0 + np.arange(nf) * 1.25)
                h_.model_id = np.arange(nf)[::-1].copy()
                h_.model_name = np.array(['hand_%03d' % k for k in range(nf)], dtype='U20')
                h_.model_fluxes = (np.arange(nf * nb, dtype=float).reshape(nf, nb) + 0.5) if conv else None
                h_.meta = info.meta
                info = h_
            infos.append(info)
        sizes = record_sizes(infos, lambda k: path if k == nrec else os.path.join(w.dir, 'prefix_%d.fitinfo' % k))
        data = open(path, 'rb').read()
        if sum(sizes) != len(data):
            raise MachineryError('file is not a sequence of pickles: %r vs %d bytes' % (sizes, len(data)))
        # (if a record were written as several pickles, len(sizes) > 3 + nrec: the spec then still bounds the
        # number of records by the number of complete blocks, and a record yielded from only part of its
        # blocks shows up as "differs from the written one")
        tr = [{'ev': 'File', 'sizes': sizes, 'conv': int(conv)}]
        cpath = os.path.join(w.dir, 'cut.fitinfo')
        offs = list(range(0, len(data), step))
        bounds = set()
        if big is not None:
            offs = list(range(0, len(data), max(1, len(data) // 200))) + [rng.randrange(len(data)) for _ in range(100)]
            for e_ in pickle_bounds(path):
                bounds.update([e_ - 1, e_, e_ + 1])
        acc = 0
        for s in sizes:
            acc += s
            bounds.update([acc - 1, acc, acc + 1])
        offs = sorted(set(offs) | {b for b in bounds if 0 <= b < len(data)})
        for k in offs:
            with open(cpath, 'wb') as f:
                f.write(data[:k])
            ev = {'ev': 'Cut', 'k': k, 'opened': 0, 'n': 0, 'ended': 'error', 'equal': []}
            try:
                fin = FitInfoFile(cpath, 'r')
            except Exception:
                tr.append(ev)
                continue
            ev['opened'] = 1
            try:
                it = iter(fin)
                while True:
                    try:
                        rec = next(it)
                    except StopIteration:
                        ev['ended'] = 'eof'
                        break
                    i = ev['n']
                    ev['equal'].append(1 if (i < nrec and same_info(rec, infos[i])) else 0)
                    ev['n'] += 1
            except Exception:
                ev['ended'] = 'error'
            try:
                fin.close()
            except Exception:
                pass
            tr.append(ev)
        return tr
    finally:
        w.close()


def run(ctx):
    q = not ctx.thorough
    model_check(ctx, 'Crash', 'MC_Crash.cfg' if q else 'MC_Crash_t.cfg', timeout=3000, coverage=False)
    ctx.notes['mc_constants'] = 'block sizes {2,3,5} bytes, 1..%d records, every cut offset; liveness: the reader terminates' % (3 if q else 4)
    root = ctx.mkdtemp('cw')
    seeds = [ctx.seed * 7919 + i for i in range(16 if q else 160)]
    trs = []
    for part in pmap(lambda c: [one_file(sd, root, 1) for sd in c], seeds, chunks_per_proc=1):
        trs.extend(part)
    # records of varying size: files whose first record holds thousands of fits, cut at spread offsets and at every pickle boundary
    bigs = [(ctx.seed * 104729 + i, n_) for i, n_ in enumerate([2500, 12000] if q else [2500, 12000, 25001, 40000])]
    for part in pmap(lambda c: [one_file(sd, root, 1, big=n_) for sd, n_ in c], bigs, chunks_per_proc=1):
        trs.extend(part)
    ncuts = sum(len(t) - 1 for t in trs)
    classes = {}
    for t in trs:
        for e in t[1:]:
            c = 'open-error' if not e['opened'] else ('%s-after-prefix' % e['ended'])
            classes[c] = classes.get(c, 0) + 1
    ctx.notes['truncation_offsets_tried'] = ncuts
    ctx.notes['outcome_classes'] = classes
    ctx.notes['files'] = len(trs)
    ctx.sample({'trace': trs[0][:1] + trs[0][len(trs[0]) // 2: len(trs[0]) // 2 + 3]})
    rejected = validate_traces(ctx, 'Trace_Crash', 'Trace_Crash.cfg', trs, chunk=8)
    for idx, viol in rejected[:10]:
        ctx.violation('C19:trace:%s' % (viol[0][1] if viol else '?'),
                      'truncated fit file read back wrongly: %r' % (viol[:5],),
                      {'file': trs[idx][0], 'events': [trs[idx][v[0] - 1] for v in viol[:5]], 'viol': viol[:20]})
    ctx.notes['exhaustive'] = True
    ctx.assumptions += ['every offset 0..len-1 of each real file is cut (exhaustive per file); files: 1-4 records, with/without predicted fluxes, n_fits 0..n_models',
                        'plus files whose first record holds 2 500 / 12 000 (thorough: up to 40 000) fits, cut at ~300 spread offsets and at every pickle and record boundary +-1',
                        'to the letter of C19 the reader may fail early; it may not yield a record not wholly before the cut or differing from the written one']
