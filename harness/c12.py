"""C12 (SED / cube / convolved files read back what was stored) and C15 (flux unit conversions).

spec/SpectralStore.tla: objects and files as layouts of cell tokens, writers/readers as
permutations; all histories of <= 5 operations.  spec/Units.tla: exponent algebra of
convert_flux.  Both replayed through SED.write/read, SEDCube.write/read/get_sed,
ConvolvedFluxes.write/read on real files.
"""
import os
import random

import numpy as np

from .common import model_check, validate_traces, MachineryError, pmap, Collector
from . import pkgworld as pw

UNIT_STR = {'mJy': 'mJy', 'Jy': 'Jy', 'erg/cm2/s': 'erg / (cm2 s)', 'erg/s': 'erg / s', 'W/m2': 'W / m2', 'K': 'K'}


def val(m, a, w):
    return 1000.0 * (m + 1) + 100.0 * (a + 1) + (w + 1) + 0.25


def unc(m, a, w):
    return val(m, a, w) + 0.5


def decode(x, is_unc):
    x = float(x) - (0.5 if is_unc else 0.0)
    m = int(x // 1000)
    a = int((x - 1000 * m) // 100)
    w = x - 1000 * m - 100 * a - 0.25
    if abs(w - round(w)) > 1e-6:
        return None
    return (m - 1, a - 1, int(round(w)) - 1)


KPC_CM = 3.0856775814913673e21


def to_base(unit, nu):
    return {'mJy': 1e-26 * nu, 'Jy': 1e-23 * nu, 'erg / (cm2 s)': 1.0 + 0 * nu, 'erg / s': (1.0 + 0 * nu) / KPC_CM ** 2}[unit]


def project(o, kind, wav, tol=1e-9, stored_unit=None, read_unit=None):
    """ranks of the wavelength axis + check that every cell sits with its own wavelength.
    Returns (ranks, problems)"""
    from astropy import units as u
    w = o.wav.to(u.micron).value
    ranks = []
    for x in w:
        i = int(np.argmin(np.abs(np.array(wav) - x)))
        ranks.append(i if abs(wav[i] - x) <= 1e-9 * wav[i] else -1)
    nu = o.nu.to(u.Hz).value
    bad = []
    if any(abs(nu[p] - 299792458.0 / (w[p] * 1e-6)) > 1e-9 * nu[p] for p in range(len(w))):
        bad.append('frequencies are not c / wavelengths position by position')
    if kind == 'sed':
        fac = np.ones(len(w))
        if stored_unit is not None and read_unit != stored_unit:
            # value in read_unit = value in stored_unit * to_base(stored) / to_base(read), with THIS position's frequency
            fac = to_base(stored_unit, nu) / to_base(read_unit, nu)
        arrs = [('flux', (o.flux.value / fac)[None, ...], False), ('error', (o.error.to(o.flux.unit).value / fac)[None, ...], True)]       # (the error may be held in another unit)
    else:
        arrs = [('val', o.val.value, False)] + ([('unc', o.unc.to(o.val.unit).value, True)] if o.unc is not None else [])
    for nm, arr, isu in arrs:
        for m in range(arr.shape[0]):
            for a in range(arr.shape[1]):
                for p in range(arr.shape[2]):
                    d = decode(arr[m, a, p], isu)
                    want_m = None if kind == 'sed' else m
                    if d is None or d[1] != a or d[2] != ranks[p] or (want_m is not None and d[0] != m):
                        bad.append('%s[%d,%d,%d] holds the cell %r but sits at wavelength rank %r' % (nm, m, a, p, d, ranks[p]))
                        if len(bad) > 3:
                            return ranks, bad
    return ranks, bad


def replay_behaviour(col, b, rng, tmpdir, tag):
    from astropy import units as u
    from sedfitter.sed import SED, SEDCube
    nm = rng.randint(1, 6)
    na = rng.choice([0, 1, 2, 3, 5])
    nw = rng.choice([2, 3, 5, 9, 40])
    wav = [0.5 * (1.37 ** i) for i in range(nw)]
    aps = None if na == 0 else [10.0 * (i + 1) for i in range(na)]
    memmap = rng.random() < 0.5
    funit = rng.choice(['mJy', 'Jy', 'erg / (cm2 s)', 'erg / s'])
    desc = {'behaviour': b, 'n_models': nm, 'apertures': aps, 'n_wav': nw, 'memmap': memmap, 'flux_unit': funit}
    obj = None
    kind = None
    path = None
    file_kind = None
    obj_unit = funit
    mpick = 0
    cnames = None
    for si, st in enumerate(b):
        try:
            if st['op'] == 'create':
                kind = st['kind']
                if kind == 'sed':
                    mpick = rng.randrange(nm)
                    obj = pw.sed_object('model_x', wav, aps, lambda a, w: val(mpick, a, w), lambda a, w: unc(mpick, a, w), st['axis'], flux_unit=funit)
                else:
                    cnames = ['mod%02d' % ((i * 7 + 3) % nm) for i in range(nm)] if nm in (2, 3, 4, 5, 6) and 7 % nm else ['mod%02d' % (nm - 1 - i) for i in range(nm)]
                    obj = pw.cube_object(cnames, wav, aps, val, unc, st['axis'], with_unc=st['unc'], flux_unit=funit, unc_twin=bool(nw % 2))
            elif st['op'] == 'write':
                path = os.path.join(tmpdir, '%s_%d.fits' % (tag, si))
                obj.write(path)
                file_kind = kind
            elif st['op'] == 'read':
                kind = file_kind
                if kind == 'sed':
                    runit = rng.choice(['mJy', 'Jy', 'erg / (cm2 s)', 'erg / s']) if rng.random() < 0.5 else funit
                    obj = SED.read(path, unit_flux=u.Unit(runit), order=st['order'])
                    obj_unit = runit
                else:
                    obj = SEDCube.read(path, order=st['order'], memmap=memmap)
                    obj_unit = funit
            elif st['op'] == 'get_sed':
                mpick = (st['m'] - 1) % nm          # the model in cube ROW mpick (names are deliberately not in sorted order)
                obj = obj.get_sed(cnames[mpick])
                kind = 'sed'
                obj_unit = funit
        except Exception as e:
            sig = 'C12:%s_%s_raised:%s' % (kind, st['op'], type(e).__name__)
            if 'parse_strict' in repr(e):
                sig = 'C12:unit_string_parse_strict'
            col.violation(sig, '%s %s raised %r (flux unit %s, apertures %r, uncertainties %s)' % (kind, st['op'], e, funit, aps, b[0]['unc']),
                          dict(desc, step=si))
            return
        col.replayed += 1
        if st['op'] in ('read', 'get_sed', 'create'):
            ranks, bad = project(obj, kind, wav, stored_unit=funit, read_unit=(obj_unit if kind == 'sed' else funit))
            asc_spec = (st['wavs'][0] < st['wavs'][-1]) if 'wavs' in st else (st['axis'] == 'asc')
            asc_obs = ranks[0] < ranks[-1]
            mono = all((ranks[i] < ranks[i + 1]) == asc_obs for i in range(len(ranks) - 1))
            if kind == 'sed' and not bad:
                # the SED must be the one that was put in
                nu0 = obj.nu.to(u.Hz).value[:1]
                f0 = (to_base(funit, nu0) / to_base(obj_unit, nu0))[0] if obj_unit != funit else 1.0
                d0 = decode(obj.flux.value[0, 0] / f0, False)
                if d0 is None or d0[0] != mpick:
                    bad.append('SED holds model %r, expected %r' % (d0, mpick))
            if obj.apertures is None and aps is not None:
                bad.append('apertures lost')
            if aps is not None and obj.apertures is not None and not np.allclose(obj.apertures.to(u.au).value, aps, rtol=1e-12):
                bad.append('apertures changed')
            if kind == 'cube' and st['op'] == 'read' and (obj.unc is not None) != b[0]['unc']:
                bad.append('uncertainties %s' % ('invented' if obj.unc is not None else 'lost'))
            if asc_obs != asc_spec or not mono:
                bad.append('spectral axis %s, spec says %s' % (ranks, 'increasing wavelength' if asc_spec else 'decreasing wavelength'))
            if bad:
                ops = [s_['op'] + (':' + s_.get('order', s_.get('axis', ''))) for s_ in b[:si + 1]]
                col.violation('C12:%s:%s' % (kind, 'cell_misplaced' if 'holds the cell' in bad[0] else 'layout'),
                              '%s after %s: %s' % (kind, ' -> '.join(ops), '; '.join(bad[:3])), dict(desc, step=si, problems=bad))
                return


def replay_chunk(behs, tmpdir, seed):
    col = Collector()
    for bi, b in behs:
        rng = random.Random(seed * 7919 + bi)
        for rep in range(2):
            replay_behaviour(col, b, rng, tmpdir, 'b%d_%d_%d' % (os.getpid(), bi, rep))
    return col


def conv_roundtrip(col, rng, tmpdir, tag):
    """ConvolvedFluxes.write/read: every (model, aperture) cell, names, apertures, wavelength"""
    from astropy import units as u
    from sedfitter.convolved_fluxes import ConvolvedFluxes
    nm = rng.randint(1, 6)
    na = rng.choice([0, 1, 2, 5])
    c = ConvolvedFluxes()
    c.central_wavelength = rng.choice([0.55, 3.6, 70.0]) * u.micron
    c.model_names = np.array(['m%03d' % (nm - i) for i in range(nm)], dtype='U30')
    # apertures, fluxes and errors each in a unit of their own (the values below are exactly representable in all of them)
    apu = rng.choice([u.au, u.au, u.pc, u.kpc])
    fu, eu = rng.choice([(u.mJy, u.mJy), (u.mJy, u.Jy), (u.Jy, u.mJy)])
    c.apertures = None if na == 0 else np.array([7.0 * (i + 1) for i in range(na)]) * apu
    n2 = max(na, 1)
    c.flux = np.array([[val(m, a, 0) for a in range(n2)] for m in range(nm)]) * fu
    c.error = np.array([[unc(m, a, 0) for a in range(n2)] for m in range(nm)]) * eu
    p = os.path.join(tmpdir, 'conv_%s.fits' % tag)
    try:
        c.write(p)
        r = ConvolvedFluxes.read(p)
    except Exception as e:
        col.violation('C12:conv_raised:%s' % type(e).__name__, 'ConvolvedFluxes write/read raised %r' % (e,), {'nm': nm, 'na': na})
        return
    col.replayed += 1
    ok = ([str(x).strip() for x in r.model_names] == list(c.model_names) and np.array_equal(r.flux.to(fu).value, c.flux.value)
          and np.array_equal(r.error.to(eu).value, c.error.value) and abs(r.central_wavelength.to(u.micron).value - c.central_wavelength.value) < 1e-12
          and ((r.apertures is None) == (c.apertures is None)) and (c.apertures is None or np.array_equal(r.apertures.to(apu).value, c.apertures.value)))
    if not ok:
        col.violation('C12:conv_roundtrip', 'convolved-flux table changed by write/read', {'nm': nm, 'na': na, 'names': list(map(str, r.model_names))})


def run_C12(ctx):
    res = model_check(ctx, 'SpectralStore', 'MC_SpectralStore.cfg', timeout=600, coverage=True)
    em = [b for b in res['emitted'] if isinstance(b, list)]
    if not em:
        raise MachineryError('no behaviours emitted')
    ctx.notes['mc_constants'] = '2 models x 2 apertures x 3 wavelengths, SED and cube, axis supplied ascending/descending, with/without uncertainties, every history of 5 operations (create, write, read nu|wav, get_sed)'
    ctx.notes['behaviours_emitted'] = len(em)
    ctx.notes['exhaustive'] = True
    ctx.sample({'behaviour': em[len(em) // 2]})
    tmpdir = ctx.mkdtemp('ss')
    reps = 1 if not ctx.thorough else 6
    items = [(i + r * len(em), b) for r in range(reps) for i, b in enumerate(em)]
    for col in pmap(lambda c: replay_chunk(c, tmpdir, ctx.seed + (0 if not ctx.thorough else len(c))), items):
        col.merge_into(ctx)
    col = Collector()
    rng = random.Random(ctx.seed)
    for i in range(60 if not ctx.thorough else 600):
        conv_roundtrip(col, rng, tmpdir, 'c%d' % i)
    col.merge_into(ctx)
    ctx.assumptions += ['concrete sizes (1-6 models, 0-5 apertures, 2-40 wavelengths), flux unit and memmap are drawn per replay; the spec decides which cell goes where, value equality (to 1e-9 through the nu*F_nu round trip) is the harness\'s',
                        'no recorded-trace direction: the behaviours already are every history of the store']


# ---- C15 ---------------------------------------------------------------------------
def store_single_precision(path):
    """rewrite the table columns of an SED file as 4-byte floats (FITS 'E' columns, the storage of the published model
    packages) when every value fits; returns True if rewritten"""
    from astropy.io import fits
    with fits.open(path) as h:
        for ext in h[1:]:
            for c in ext.columns:
                a = np.abs(np.asarray(ext.data[c.name], dtype=float))
                if not np.all(np.isfinite(a)) or np.any(a > 1e37) or np.any((a < 1e-37) & (a > 0)):
                    return False
        hdus = [h[0].copy()]
        for ext in h[1:]:
            cols = [fits.Column(name=c.name, format=c.format.replace('D', 'E'), array=np.asarray(ext.data[c.name]).astype('float32'), unit=c.unit)
                    for c in ext.columns]
            hdus.append(fits.BinTableHDU.from_columns(cols, name=ext.name))
        fits.HDUList(hdus).writeto(path, overwrite=True)
    return True


def replay_units(behs, tmpdir, seed):
    from astropy import units as u
    from sedfitter.sed import SED
    col = Collector()
    for bi, b in behs:
        rng = random.Random(seed * 31 + bi)
        k, j, hops = b['k'], b['j'], b['hops']
        na = rng.choice([1, 2, 5])
        nw = rng.choice([2, 3, 6])
        # every cell has frequency 10^k Hz times a per-cell power of ten so the expectation stays exact
        ks = [k + (i % 3) - 1 for i in range(nw)]
        s = SED()
        s.name = 'u'
        s.distance = (10.0 ** j) * u.cm
        s.nu = np.array([10.0 ** kk for kk in ks][::-1] if rng.random() < 0.5 else [10.0 ** kk for kk in ks]) * u.Hz
        ks = [int(round(np.log10(x))) for x in s.nu.value]
        s.wav = s.nu.to(u.micron, equivalencies=u.spectral())
        s.apertures = np.array([10.0 * (a + 1) for a in range(na)]) * u.au if na > 1 else None
        u0 = hops[0]['to']
        p0 = hops[0]['p']
        # cell (a, w) holds 10^(p0 + a) in unit u0
        s.flux = np.array([[10.0 ** (p0 + a) for _ in range(nw)] for a in range(na)]) * u.Unit(UNIT_STR[u0])
        s.error = s.flux * 0.1
        zero_cell = (bi % 4 == 2)
        if zero_cell:
            s.flux[0, 0] = 0.0 * s.flux.unit       # a stored flux of exactly zero (as model SEDs have at short wavelengths) with a non-zero error
        if bi % 3 == 1:
            # the error column may carry another unit of the same family than the flux column (SED.write stores each with its own)
            twin = {'mJy': 'Jy', 'Jy': 'mJy', 'erg/cm2/s': 'W/m2', 'W/m2': 'erg/cm2/s'}.get(u0)
            if twin:
                s.error = s.error.to(u.Unit(UNIT_STR[twin]))
        cur = s
        path = None
        order = None
        tol = 1e-9
        # single-precision storage only where every cell (flux and error) stays inside the 4-byte range in the two intermediate
        # forms the conversion goes through (erg/cm2/s and erg/cm2/s/Hz); the luminosity itself may be as large as it likes
        e32 = all(-35 <= e_ <= 35 for a in range(na) for kk in ks for pp in (p0 + a, p0 + a - 1)
                  for e_ in (convert_exp(u0, 'erg/cm2/s', pp, kk, j), convert_exp(u0, 'Jy', pp, kk, j) - 23))
        for hi, h in enumerate(hops[1:]):
            path = os.path.join(tmpdir, 'u_%d_%d_%d.fits' % (os.getpid(), bi, hi))
            try:
                cur.write(path)
                if e32 and (bi + hi) % 2 == 0 and store_single_precision(path):
                    tol = 1e-6                  # the file holds 4-byte floats from here on
                nxt = SED.read(path, unit_flux=u.Unit(UNIT_STR[h['to']]), order=rng.choice(['nu', 'wav']))
            except Exception as e:
                sig = 'C15:raised:%s' % type(e).__name__
                if 'parse_strict' in repr(e):
                    sig = 'C15:unit_string_parse_strict'
                col.violation(sig, 'stored %s, requested %s: %r' % (hops[hi]['to'], h['to'], e), b)
                nxt = None
                break
            col.replayed += 1
            # expected exponent per cell: Convert from the FIRST unit (path independence) with that cell's frequency
            knu = [int(round(np.log10(x))) for x in nxt.nu.to(u.Hz).value]
            got = nxt.flux.to(u.Unit(UNIT_STR[h['to']])).value
            gote = nxt.error.to(u.Unit(UNIT_STR[h['to']])).value
            bad = None
            for a in range(na):
                for w in range(nw):
                    want = convert_exp(u0, h['to'], p0 + a, knu[w], j)
                    if zero_cell and a == 0 and got[a, w] == 0.0 and (knu[w] == ks[0] or True) and abs(gote[a, w] / 10.0 ** (want - 1) - 1.0) <= tol:
                        zc = [(a_, w_) for a_ in range(na) for w_ in range(nw) if got[a_, w_] == 0.0]
                        if zc == [(a, w)]:
                            continue          # the one zero cell: flux stays 0 in every unit, its error converts like any other
                    if not abs(got[a, w] / 10.0 ** want - 1.0) <= tol:
                        bad = 'cell (aperture %d, nu=1e%d Hz): %r %s, spec 1e%d' % (a, knu[w], got[a, w], h['to'], want)
                        break
                    if not abs(gote[a, w] / 10.0 ** (want - 1) - 1.0) <= tol:
                        bad = 'ERROR cell (aperture %d, nu=1e%d Hz): %r %s, spec 1e%d' % (a, knu[w], gote[a, w], h['to'], want - 1)
                        break
                if bad:
                    break
            if bad is None and abs(h['p'] - convert_exp(u0, h['to'], p0, k, j)) != 0:
                raise MachineryError('harness exponent algebra disagrees with Units.tla')
            if bad:
                col.violation('C15:value', 'chain %s: %s' % (' -> '.join(x['to'] for x in hops[:hi + 2]), bad), b)
                break
            cur = nxt
        # an unsupported unit is refused
        if path is not None and bi % 5 == 0:
            try:
                SED.read(path, unit_flux=u.K)
                col.violation('C15:unsupported_unit_accepted', 'SED.read(unit_flux=K) returned instead of refusing', b)
            except Exception:
                col.replayed += 1
    return col


def convert_exp(u, v, p, k, j):
    base = {'Jy': p + k - 23, 'mJy': p + k - 26, 'erg/cm2/s': p, 'W/m2': p + 3, 'erg/s': p - 2 * j}[u]
    return {'Jy': base - k + 23, 'mJy': base - k + 26, 'erg/cm2/s': base, 'W/m2': base - 3, 'erg/s': base + 2 * j}[v]


def run_C15(ctx):
    res = model_check(ctx, 'Units', 'MC_Units.cfg', timeout=600, coverage=True)
    em = [b for b in res['emitted'] if isinstance(b, dict) and 'hops' in b]
    if not em:
        raise MachineryError('no behaviours emitted')
    ctx.notes['mc_constants'] = 'all 5x5 pairs and 5x5x5 triples of {mJy, Jy, erg/cm2/s, W/m2, erg/s}, exponents {0,3}, nu in {1e11,1e14} Hz, d in {1e18,1e21} cm'
    ctx.notes['behaviours_emitted'] = len(em)
    ctx.notes['exhaustive'] = True
    ctx.sample({'behaviour': em[len(em) // 2]})
    tmpdir = ctx.mkdtemp('un')
    for col in pmap(lambda c: replay_units(c, tmpdir, ctx.seed), list(enumerate(em))):
        col.merge_into(ctx)
    ctx.assumptions += ['the spec is an exponent algebra; nearly all assurance for C15 comes from the exhaustive replay of every stored x requested pair and every triple (DESIGN.md section 6 C15)',
                        "astropy's own unit arithmetic is trusted"]
