"""C16 -- monochromatic convolution emits every in-range wavelength at any memory limit.

spec/Mono.tla: the window-to-index arithmetic and the chunk loop (every n_wav <= MaxN, chunk size,
window) + nearest-wavelength slice; every behaviour replayed on real per-file packages
(convolve_model_dir_monochromatic) and cube packages (Fitter with wavelength 'filters').
"""
import glob
import os
import random
import shutil

import numpy as np

from .common import model_check, MachineryError, pmap, Collector
from . import fitworld as fw
from . import pkgworld as pw

WUNIT = 0.5       # micron per abstract wavelength unit


def val(m, a, w):
    return 1000.0 * (m + 1) + 100.0 * (a + 1) + (w + 1) + 0.25


def unc(m, a, w):
    return val(m, a, w) / 16.0


class MonoWorld(object):
    def __init__(self, root, n, nm, na, seed):
        import tempfile
        rng = random.Random(seed)
        self.dir = tempfile.mkdtemp(dir=root)
        self.n, self.nm, self.na = n, nm, na
        self.names = ['mdl_%s' % c for c in 'qdbfhac'[:nm]]           # table order != sorted order
        self.wav = [WUNIT * 2 * (i + 1) for i in range(n)]           # increasing: rank i <-> abstract W = 2(i+1)
        self.aps = [50.0 * (i + 1) for i in range(na)] if na > 1 else None
        stored = [rng.choice(['asc', 'desc']) for _ in range(nm)]
        pw.build_perfile(self.dir, self.names, self.wav, self.aps, val, unc, stored=stored)

    def close(self):
        shutil.rmtree(self.dir, ignore_errors=True)


def replay_chunk(items, root, seed):
    from astropy import units as u
    from sedfitter.convolve import convolve_model_dir_monochromatic
    from sedfitter.convolved_fluxes import ConvolvedFluxes
    col = Collector()
    worlds = {}
    try:
        for bi, b in items:
            n, c, lo, hi = b['n'], b['c'], b['lo'], b['hi']
            rng = random.Random(seed * 131 + bi)
            nm, na = rng.randint(1, 5), rng.choice([1, 2, 3])
            key = (n, nm, na)
            if key not in worlds:
                worlds[key] = MonoWorld(root, n, nm, na, seed + bi)
            w = worlds[key]
            cdir = os.path.join(w.dir, 'convolved')
            shutil.rmtree(cdir, ignore_errors=True)
            kw = {'max_ram': (c + 0.5) * 8.0 * nm * max(na, 1) / 1024.0 ** 3}
            wunit = [u.micron, u.nm, u.angstrom, u.mm][(bi + seed) % 4]         # the window may be given in any unit of length
            if lo > 0:
                kw['wav_min'] = (lo * WUNIT * u.micron).to(wunit)
            if hi < 2 * n + 2:
                kw['wav_max'] = (hi * WUNIT * u.micron).to(wunit)
            desc = {'n_wav': n, 'chunk': c, 'window_unit': str(wunit), 'window_um': [lo * WUNIT if lo > 0 else None, hi * WUNIT if hi < 2 * n + 2 else None],
                    'wavelengths_um_by_file_index': [WUNIT * 2 * (n - j) for j in range(n)], 'n_models': nm, 'n_ap': na, 'behaviour': b}
            try:
                with fw.quiet():
                    tab = convolve_model_dir_monochromatic(w.dir, overwrite=True, **kw)
            except Exception as e:
                col.violation('C16:raised:%s' % type(e).__name__, 'n_wav=%d chunk=%d window=%r: raised %r; spec expects files %r'
                              % (n, c, desc['window_um'], e, ['MO%03d' % (j + 1) for j in b['emitted']]), desc)
                continue
            col.replayed += 1
            files = sorted(os.path.basename(p)[:-5] for p in glob.glob(os.path.join(cdir, 'MO*.fits')))
            must = {'MO%03d' % (j + 1) for j in b['emitted'] if j not in b['open']}
            may = {'MO%03d' % (j + 1) for j in b['emitted']} | {'MO%03d' % (j + 1) for j in b['open']}
            if not (must <= set(files) <= may):
                kind = 'missing' if not must <= set(files) else 'extra'
                col.violation('C16:files_%s' % kind, 'n_wav=%d chunk=%d window=%r um: files %r, spec requires %r (optional at an exact bound: %r)'
                              % (n, c, desc['window_um'], files, sorted(must), sorted(may - must)), dict(desc, observed=files))
                continue
            tnames = [str(x).strip() for x in tab['filter']]
            twav = [float(x) for x in np.asarray(tab['wav'].to(u.micron).value if hasattr(tab['wav'], 'to') else tab['wav'])]
            bad = None
            for j in range(n):
                want = 'MO%03d' % (j + 1) if ('MO%03d' % (j + 1)) in files else ''
                if tnames[j] != want:
                    bad = 'returned table row %d names %r, files on disk say %r' % (j, tnames[j], want)
                if abs(twav[j] - WUNIT * 2 * (n - j)) > 1e-9:
                    bad = 'returned table row %d has wavelength %r' % (j, twav[j])
            for f in files:
                if bad:
                    break
                j = int(f[2:]) - 1
                r = ConvolvedFluxes.read(os.path.join(cdir, f + '.fits'))
                wrank = n - 1 - j
                if [str(x).strip() for x in r.model_names] != w.names:
                    bad = '%s: rows %r, parameter table order %r' % (f, list(map(str, r.model_names)), w.names)
                elif abs(r.central_wavelength.to(u.micron).value - w.wav[wrank]) > 1e-9:
                    bad = '%s: FILTWAV %r, expected %r' % (f, r.central_wavelength, w.wav[wrank])
                else:
                    for m in range(nm):
                        for a in range(max(na, 1)):
                            if abs(r.flux.to(u.mJy).value[m, a] - val(m, a, wrank)) > 1e-6 or abs(r.error.to(u.mJy).value[m, a] - unc(m, a, wrank)) > 1e-6:
                                bad = '%s: model %s aperture %d holds flux %r error %r, SED has %r / %r' % (
                                    f, w.names[m], a, r.flux.value[m, a], r.error.value[m, a], val(m, a, wrank), unc(m, a, wrank))
                    if na > 1 and (r.apertures is None or not np.allclose(r.apertures.to(u.au).value, w.aps)):
                        bad = '%s: apertures %r' % (f, r.apertures)
            if bad:
                col.violation('C16:content', 'n_wav=%d chunk=%d window=%r: %s' % (n, c, desc['window_um'], bad), desc)
    finally:
        for w in worlds.values():
            w.close()
    return col


def replay_nearest(items, root, seed):
    """cube packages: a wavelength instead of a filter name selects the nearest tabulated slice"""
    import tempfile
    from astropy import units as u
    col = Collector()
    for bi, b in items:
        n = b['n']
        rng = random.Random(seed + bi)
        nm = rng.randint(1, 4)
        d = tempfile.mkdtemp(dir=root)
        try:
            names = ['c%02d' % i for i in range(nm)]
            wav = [WUNIT * 2 ** (i + 1) for i in range(n)]        # geometric grid (spec WAsc)
            pw.build_cube(d, names, wav, None, val, unc, order=rng.choice(['asc', 'desc']))
            law = fw.make_extinction([2] * 1, [3.3])
            for x2s, nearest in sorted(b['near'].items(), key=lambda kv: int(kv[0])):
                x2 = int(x2s)
                lam = x2 / 4.0 * WUNIT                                # requests in quarter units (spec Probes)
                try:
                    with fw.quiet():
                        from sedfitter.fit import Fitter
                        ft = Fitter([lam * u.micron], np.array([3.0]) * u.arcsec, d, extinction_law=law, av_range=(0., 1.),
                                    distance_range=np.array([1.0, 2.0]) * u.kpc, use_memmap=bool(x2 % 2))
                    got = np.asarray(ft.models.fluxes.to(u.mJy).value)[:, 0]
                except Exception as e:
                    col.violation('C16:cube_raised:%s' % type(e).__name__, 'cube with %d wavelengths, request %g um: %r' % (n, lam, e), b)
                    break
                col.replayed += 1
                ok = any(all(abs(got[m] - val(m, 0, i - 1)) < 1e-3 for m in range(nm)) for i in nearest)
                if not ok:
                    col.violation('C16:cube_nearest', 'cube wavelengths %r um, request %g um: fluxes %r are not the slice at the nearest wavelength (%r)'
                                  % (wav, lam, got.tolist(), [wav[i - 1] for i in nearest]), dict(b, request_um=lam))
                    break
        finally:
            shutil.rmtree(d, ignore_errors=True)
    return col


def run(ctx):
    q = not ctx.thorough
    res = model_check(ctx, 'Mono', 'MC_Mono.cfg' if q else 'MC_Mono_t.cfg', timeout=1800, coverage=False)
    em = [b for b in res['emitted'] if isinstance(b, dict) and 'emitted' in b]
    if not em:
        raise MachineryError('no behaviours emitted')
    ctx.notes['mc_constants'] = 'n_wav 2..%d, every chunk size 1..n_wav, every window with ends on or between wavelengths (incl. single-wavelength and empty windows, no bound); liveness: the loop terminates' % (5 if q else 9)
    ctx.notes['behaviours_emitted'] = len(em)
    ctx.notes['exhaustive'] = True
    ctx.sample({'behaviour': em[len(em) // 2]})
    root = ctx.mkdtemp('mono')
    items = list(enumerate(em))
    if not q:
        rng = random.Random(ctx.seed)
        rng.shuffle(items)
        items = items[:6000]
    for col in pmap(lambda c: replay_chunk(c, root, ctx.seed), items):
        col.merge_into(ctx)
    near = [(i, b) for i, b in enumerate(em) if b['near']]
    for col in pmap(lambda c: replay_nearest(c, root, ctx.seed), near, chunks_per_proc=1):
        col.merge_into(ctx)
    ctx.assumptions += ['a window end exactly equal to a tabulated wavelength is left open (docstring: above/below; code: inclusive below)',
                        'chunk steps are internal: only the call and its result are observed (files, their contents, the returned table)']
