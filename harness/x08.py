"""X08 (extension) -- the protocol of FitInfoFile on a path (spec/FileProtocol.tla): open r/w, write with metadata fixed by the first
record, iteration from the handle position (a second iteration yields nothing), meta only in read mode, opening a file without records
fails.  These are behaviours of the code AS IT IS, beyond what C10 promises ("reading the file returns every record and the metadata"):
a change that lets a file be iterated twice is not a C10 violation, so this replay is an extension check and not part of C10."""
from .session import protocol_replay


def run(ctx):
    protocol_replay(ctx)
