"""C02 -- distance-dependent fits pick the grid optimum of correctly scaled model fluxes.

spec/MC_FitDist.tla: (a) exact size of the log-uniform distance grid, (b) exact construction of
aperture tables from a desired cube, (c) FitKernel!FitAtDist per distance + grid minimum, KKT
certificate per distance.  Replayed on real aperture-dependent packages of both formats:
models.distances / models.fluxes cell by cell, then FitInfo of every model.
"""
import math
import os
import zlib
import random
import shutil
import tempfile

import numpy as np

from .common import model_check, MachineryError, pmap, Collector
from . import fitworld as fw
from . import pkgworld as pw
from .fitworld import frac

THETA = [1.0, 2.5]
D0 = 0.5
NAMES = ['m_c', 'm_a', 'm_b']


def recipes(c, nd, r):
    """per band j: recipe per distance index"""
    if c == 1 and r == 10 and nd >= 2:
        # cube 1 is pure inverse square: requests beyond the largest aperture (which is a knot) see its value
        return [['knot', 'knot', 'clamp'][:nd] if nd == 3 else ['knot', 'clamp'], ['knot', 'clamp', 'clamp'][:nd]]
    return [['knot', 'mid', 'knot'][:nd], ['mid', 'knot', 'mid'][:nd]]


def build_world(root, cube, K, ulo, uhi, nd, c, fmt, memmap, r, distance_unit='kpc', theta=None, rc=None, d0=None, remove_resolved=False):
    from astropy import units as u
    from sedfitter.convolved_fluxes import ConvolvedFluxes
    d = tempfile.mkdtemp(dir=root)
    nm = len(cube)
    names = NAMES[:nm] if nm <= 3 else ['m_%s' % ch for ch in 'hcafbdge'[:nm]]
    dist = [(d0 or D0) * r ** i for i in range(nd)]
    theta = theta or THETA
    nbands = len(theta)
    hv = zlib.crc32(repr((K, nm, fmt, ulo, uhi, nd, c)).encode())
    # the unit in which the aperture radii are handed to the fitter (arcsec, arcmin or degrees).  Another unit costs the request
    # theta*d one ulp, so such worlds get one extra, smaller tabulated radius below every request (it changes no interpolated value)
    ap_unit = 'arcsec' if (rc is not None or remove_resolved) else ['arcsec', 'arcmin', 'deg'][(hv // 5) % 3]
    tab_unit = 'au' if (rc is not None or remove_resolved) else ['au', 'pc', 'cm', 'kpc'][(hv // 15) % 4]      # unit of the tabulated radii
    rc = rc or recipes(c, nd, r)
    wavs = fw.band_wavelengths(nbands)
    os.makedirs(os.path.join(d, 'convolved'))
    step = math.log10(r) * 1.0001 if nd > 1 else 0.02
    fw.write_conf(d, aperture_dependent=True, logd_step=step, version=(1 if fmt == 'perfile' else 2))
    for j in range(nbands):
        req = [theta[j] * dist[i] * 1000.0 for i in range(nd)]
        knots = []
        vals = [[] for _ in range(nm)]
        for i in range(nd):
            tg = [10.0 ** (cube[m][i][j] / 4.0) * dist[i] ** 2 for m in range(nm)]
            if rc[j][i] == 'knot':
                knots.append(req[i])
                for m in range(nm):
                    vals[m].append(tg[m])
            elif rc[j][i] == 'mid':
                knots += [0.9 * req[i], 1.1 * req[i]]
                for m in range(nm):
                    vals[m] += [0.8 * tg[m], 1.2 * tg[m]]
        if len(knots) == 1:            # a table needs two radii to be aperture dependent: add a smaller one
            knots = [0.5 * knots[0]] + knots
            for m in range(nm):
                vals[m] = [0.3 * vals[m][0]] + vals[m]
        if ap_unit != 'arcsec' or tab_unit != 'au':
            knots = [0.5 * knots[0]] + knots
            for m in range(nm):
                vals[m] = [0.3 * vals[m][0]] + vals[m]
        cf = ConvolvedFluxes()
        cf.central_wavelength = wavs[j] * u.micron
        cf.model_names = np.array(names, dtype='U30')
        cf.apertures = (np.array(knots) * u.au).to(getattr(u, tab_unit))
        cf.flux = np.array(vals) * u.mJy
        cf.error = np.zeros((nm, len(knots))) * u.mJy
        cf.write(os.path.join(d, 'convolved', 'f%d.fits' % j))
    if fmt == 'cube':
        pw.cube_object(names, [1.0, 2.0], [100.0, 200.0], lambda m, a, w: 1.0 + m + a + w, lambda m, a, w: 0.1, 'desc').write(os.path.join(d, 'flux.fits'))
    law = fw.make_extinction(K, wavs, variety=zlib.crc32(repr((K, list(names), fmt, ulo, uhi)).encode()))
    ft = fw.make_fitter(d, ['f%d' % j for j in range(nbands)], law, ulo, uhi, distance_range=[dist[0], dist[-1]], apertures=theta, use_memmap=memmap,
                        distance_unit=distance_unit, remove_resolved=remove_resolved, aperture_unit=ap_unit)
    return d, ft, dist, names


def replay_group(key, behs, root, seed, pid='C02', formats=(('perfile', False), ('cube', False), ('cube', True))):
    from astropy import units as u
    col = Collector()
    c, k, r_, nd = key
    b0 = behs[0]
    rng = random.Random(seed + c * 1000 + k * 100 + r_ * 10 + nd)
    ratio = 10 if (c == 1 or rng.random() < 0.5) else 2
    for fmt, memmap in formats:
        try:
            dunit = rng.choice(['kpc', 'pc', 'kpc', 'lyr'])      # the range may be given in any length unit; the scale is log10(d / kpc)
            d, ft, dist, names = build_world(root, b0['cube'], b0['K'], b0['ulo'], b0['uhi'], nd, c, fmt, memmap, ratio, distance_unit=dunit)
        except Exception as e:
            col.violation('%s:load_raised:%s:%s' % (pid, fmt, type(e).__name__), 'building a fitter on a %s package (memmap=%s, %d distances ratio %d) raised %r' % (fmt, memmap, nd, ratio, e),
                          {'cfg': b0['cfg'], 'cube': b0['cube']})
            continue
        tol = 3e-6 if memmap else 1e-9
        try:
            desc0 = {'cfg': b0['cfg'], 'format': fmt, 'memmap': memmap, 'distance_range_unit': dunit, 'distances_kpc': dist, 'theta_arcsec': THETA, 'cube_quarter_dex': b0['cube']}
            # ---- stage A: the grid and the cube
            od = getattr(ft.models, 'distances', None)
            ofl = getattr(ft.models, 'fluxes', None)
            if od is not None and ofl is not None:
                odv = np.asarray(od.to(u.kpc).value)
                col.replayed += 1
                if len(odv) != nd or any(abs(odv[i] - dist[i]) > 1e-9 * dist[i] for i in range(min(nd, len(odv)))):
                    col.violation('%s:grid' % pid, 'distance grid %r, spec %r (range %r..%r kpc, step %g dex)' % (odv.tolist(), dist, dist[0], dist[-1], math.log10(ratio) * 1.0001), desc0)
                    continue
                fl = np.asarray(ofl.to(u.mJy).value)
                badc = None
                for m in range(len(names)):
                    for i in range(nd):
                        for j in range(2):
                            want = 10.0 ** (b0['cube'][m][i][j] / 4.0)
                            if abs(fl[m, i, j] - want) > tol * want:
                                badc = 'model %s, distance %g kpc, band %d (radius %g AU, recipe %s): scaled flux %r, spec 10^(%d/4) = %r' % (
                                    names[m], dist[i], j, THETA[j] * dist[i] * 1000, recipes(c, nd, ratio)[j][i], fl[m, i, j], b0['cube'][m][i][j], want)
                                break
                        if badc:
                            break
                    if badc:
                        break
                if badc:
                    col.violation('%s:cube:%s' % (pid, fmt), badc, desc0)
                    continue
            else:
                col.extra['stage_A_not_observed'] = col.extra.get('stage_A_not_observed', 0) + 1
            # ---- stage B: the fits
            for b in behs:
                if b['rows'][0].get('sing'):
                    continue
                info = ft.fit(fw.make_source(b['src']))
                col.replayed += 1
                obs = fw.project_info(info)
                bad = []
                if sorted(obs['names']) != sorted(names):
                    bad.append('rows %r' % obs['names'])
                for m, nm_ in enumerate(names):
                    if bad:
                        break
                    row = b['rows'][m]
                    if any(f_['boundary'] for f_ in row['fits']):
                        continue        # a limit exactly met at some distance: either chi^2, hence either grid minimum
                    i_ = obs['names'].index(nm_)
                    sc = obs['sc'][i_]
                    di = int(np.argmin([abs(math.log10(x) - sc) for x in dist]))
                    if abs(math.log10(dist[di]) - sc) > 1e-9:
                        bad.append('%s: scale %r is not log10 of a grid distance %r' % (nm_, sc, dist))
                        break
                    if (di + 1) not in row['best']:
                        near = [bb for bb in row['best'] if abs(float(frac(row['fits'][bb - 1]['chi'])) - float(frac(row['fits'][di]['chi']))) < 1e-6
                                and row['fits'][bb - 1]['big'] == row['fits'][di]['big']]
                        if not near:
                            bad.append('%s: best distance index %d (%.3g kpc), spec admits %r (chi2 per distance %r)' % (
                                nm_, di + 1, dist[di], row['best'], [float(frac(f['chi'])) + 1e30 * f['big'] for f in row['fits']]))
                            break
                    f = row['fits'][di]
                    want_chi = float(frac(f['chi'])) if not f['big'] else f['big'] * 1e30
                    if not fw.fclose(obs['av'][i_], float(frac(f['u'])) / 4.0, 10 * tol + 1e-7, 1e-6):
                        bad.append('%s: av %r, spec %r at %.3g kpc' % (nm_, obs['av'][i_], float(frac(f['u'])) / 4.0, dist[di]))
                    elif not f['boundary'] and not fw.fclose(obs['chi2'][i_], want_chi, 100 * tol + 1e-7, 1e-5):
                        bad.append('%s: chi2 %r, spec %r at %.3g kpc' % (nm_, obs['chi2'][i_], want_chi, dist[di]))
                    elif obs['pred'] is not None and not memmap:
                        for j in range(2):
                            if not fw.fclose(obs['pred'][i_][j], float(frac(f['pred20'][j])) / 20.0, 1e-7, 1e-7):
                                bad.append('%s: predicted log flux band %d %r, spec %r' % (nm_, j, obs['pred'][i_][j], float(frac(f['pred20'][j])) / 20.0))
                if bad:
                    col.violation('%s:dist_fit:%s' % (pid, fmt) if pid != 'C02' else 'C02:fit:%s' % fmt, '%s package%s: %s' % (fmt, ' (memmap)' if memmap else '', '; '.join(bad[:3])),
                                  dict(desc0, src=b['src'], K=b['K'], av_range=[b['ulo'] / 4.0, b['uhi'] / 4.0], expected_rows=b['rows'], observed=obs))
                    break
        finally:
            shutil.rmtree(d, ignore_errors=True)
    return col


def dist_stage(ctx, pid, mod, formats=(('perfile', False),)):
    """the distance-dependent mode for properties that quantify over both fitting modes (C03, C04, C11):
    MC_FitDist behaviours replayed on one fitter per configuration (so histories are exercised too)"""
    cfg = ctx.tmp('fd_%s.cfg' % pid)
    with open(cfg, 'w') as f:
        f.write('SPECIFICATION Spec\nCONSTANTS\n  Flags = {0, 1, 2, 3, 4, 9}\n  YS = {4, 8, 11}\n  QS = {1, 2, 3}\n  SampleMod = %d\n  SampleRes = %d\n'
                'INVARIANT OptimalAtEachDistance\nINVARIANT ChiIsGridMinimum\nINVARIANT EmitInv\nCHECK_DEADLOCK FALSE\n' % (mod, ctx.seed % mod))
    res = model_check(ctx, 'MC_FitDist', cfg, timeout=3000, coverage=False)
    em = [v for v in res['emitted'] if isinstance(v, dict) and 'rows' in v]
    import random as _r
    _r.Random(ctx.seed).shuffle(em)
    root = ctx.mkdtemp('dist_%s' % pid)
    groups = {}
    for b in em:
        k = (b['cfg']['c'], b['cfg']['k'], b['cfg']['r'], b['cfg']['nd'])
        groups.setdefault(k, []).append(b)
    items = sorted(groups.items())
    for cols in pmap(lambda ch: [replay_group(k, bs, root, ctx.seed, pid=pid, formats=formats) for k, bs in ch], items, chunks_per_proc=1):
        for col in cols:
            col.merge_into(ctx)
    ctx.notes['dist_mode_behaviours'] = len(em)


def grid_sizes(ctx, table, root):
    """(a): the number of trial distances for span = (nd-1) log10 r and step = (sp/sq) log10 r"""
    from astropy import units as u
    col = Collector()
    r = 10.0
    cube = [[[0, 0]], [[1, 1]]]
    tried = 0
    for nd in range(1, 6):
        for sp in (1, 2, 3, 5, 7):
            for sq in (1, 2, 3, 4, 7):
                n, boundary = table[nd - 1][sp - 1][sq - 1]
                d = tempfile.mkdtemp(dir=root)
                try:
                    from sedfitter.convolved_fluxes import ConvolvedFluxes
                    os.makedirs(os.path.join(d, 'convolved'))
                    fw.write_conf(d, aperture_dependent=True, logd_step=math.log10(r) * sp / sq)
                    for j in range(2):
                        cf = ConvolvedFluxes()
                        cf.central_wavelength = (1.0 + j) * u.micron
                        cf.model_names = np.array(['a', 'b'], dtype='U30')
                        cf.apertures = np.array([1.0, 1e9]) * u.au
                        cf.flux = np.ones((2, 2)) * u.mJy
                        cf.error = np.zeros((2, 2)) * u.mJy
                        cf.write(os.path.join(d, 'convolved', 'f%d.fits' % j))
                    law = fw.make_extinction([2, 1], [1.0, 2.0])
                    dmax = D0 * r ** (nd - 1)
                    ft = fw.make_fitter(d, ['f0', 'f1'], law, 0, 40, distance_range=[D0, dmax], apertures=THETA)
                    od = np.asarray(ft.models.distances.to(u.kpc).value)
                    tried += 1
                    ok_n = len(od) == n or (boundary and len(od) in (n, n + 1))
                    lg = np.log10(od)
                    uniform = len(od) < 3 or np.allclose(np.diff(lg), np.diff(lg)[0], rtol=1e-9, atol=1e-12)
                    ends = abs(od[0] - D0) < 1e-12 and abs(od[-1] - dmax) < 1e-9 * dmax
                    if not (ok_n and uniform and ends):
                        col.violation('C02:grid_size', 'range %g..%g kpc with logd_step = %d/%d of a decade: %d distances %r, spec %d%s, both ends included, log-uniform'
                                      % (D0, dmax, sp, sq, len(od), od.tolist(), n, ' (or one more: exact multiple)' if boundary else ''), {'nd': nd, 'sp': sp, 'sq': sq})
                finally:
                    shutil.rmtree(d, ignore_errors=True)
    col.replayed = tried
    col.merge_into(ctx)


# ---- recorded distance-dependent fits (code -> spec) ----------------------------------------------------
def record_dist(seeds, root):
    import math as _m
    from .common import dec7
    out = []
    for sd in seeds:
        rng = random.Random(sd)
        nb = rng.choice([2, 3, 3])
        nd = rng.randint(1, 5)
        nm = rng.randint(1, 5)
        ratio = rng.choice([2, 10])
        while True:
            K = [rng.randint(0, 4) for _ in range(nb)]
            if any(K):
                break
        base = [[rng.randint(-12, 12) for _ in range(nb)] for _ in range(nm)]
        cube = [[[base[m][j] - (8 if ratio == 10 else 2) * i + rng.randint(-3, 3) for j in range(nb)] for i in range(nd)] for m in range(nm)]
        if nm > 1 and rng.random() < 0.3:
            cube[-1] = [list(r_) for r_ in cube[0]]
        lo = rng.choice([-160, 0, 0, 4])
        hi = lo + rng.choice([0, 8, 40, 400])
        theta = [rng.choice([0.5, 1.0, 2.0, 3.0]) for _ in range(nb)]
        rc = [[rng.choice(['knot', 'mid']) for _ in range(nd)] for _ in range(nb)]
        fmt = rng.choice(['perfile', 'cube'])
        try:
            d, ft, dist, names = build_world(root, cube, K, lo, hi, nd, 0, fmt, False, ratio, distance_unit=rng.choice(['kpc', 'pc']), theta=theta, rc=rc)
        except Exception as e:
            out.append([{'ev': 'Load', 'K': K, 'ulo': lo, 'uhi': hi, 'cube': cube}, {'ev': 'LoadRaised', 'why': repr(e)[:200]}])
            continue
        try:
            tr = [{'ev': 'Load', 'K': K, 'ulo': lo, 'uhi': hi, 'cube': cube}]
            for _ in range(rng.randint(1, 5)):
                while True:
                    flags = [rng.choice([0, 1, 1, 1, 2, 3, 4, 4, 9]) for _ in range(nb)]
                    if any(f in (1, 4) and K[j] for j, f in enumerate(flags)):
                        break
                src = {'flag': flags, 'Y': [rng.randint(-20, 20) for _ in range(nb)], 'W': [rng.choice([1, 4]) for _ in range(nb)],
                       'P': [rng.choice([0, 1, 2, 6, -1]) for _ in range(nb)]}
                info = ft.fit(fw.make_source(src))
                rows = []
                for i_ in range(len(info.chi2)):
                    nm_ = str(info.model_name[i_]).strip()
                    sc = float(info.sc[i_])
                    chi = float(info.chi2[i_])
                    isnan = any(_m.isnan(x) for x in (sc, chi, float(info.av[i_])))
                    di = 0
                    if not isnan:
                        k_ = int(np.argmin([abs(_m.log10(x) - sc) for x in dist]))
                        di = k_ + 1 if abs(_m.log10(dist[k_]) - sc) < 1e-9 else 0
                    big = int(round(chi / 1e30)) if (not isnan and chi >= 5e29) else 0
                    rows.append({'m': names.index(nm_) + 1 if nm_ in names else 0, 'di': di, 'nan': int(isnan), 'av': dec7(0 if isnan else info.av[i_]),
                                 'chi': dec7(0 if (isnan or big) else chi), 'big': big})
                tr.append({'ev': 'Fit', 'flag': src['flag'], 'Y': src['Y'], 'W': src['W'], 'P': src['P'], 'rows': rows})
            out.append(tr)
        finally:
            shutil.rmtree(d, ignore_errors=True)
    return out


def dist_traces(ctx, n, pid='C02'):
    from .common import validate_traces
    root = ctx.mkdtemp('dtr')
    seeds = [ctx.seed * 50021 + i for i in range(n)]
    trs = []
    for part in pmap(lambda c: record_dist(c, root), seeds):
        trs.extend(part)
    ctx.sample({'trace': trs[0]})
    rejected = validate_traces(ctx, 'Trace_FitDist', 'Trace_FitDist.cfg', trs, chunk=500)
    for idx, viol in rejected[:10]:
        ctx.violation('%s:trace:%s' % (pid, viol[0][1] if viol else '?'), 'recorded distance-dependent fits rejected by Trace_FitDist: %r' % (viol,),
                      {'trace': trs[idx], 'viol': viol})


def run(ctx):
    q = not ctx.thorough
    cfg = ctx.tmp('fd.cfg')
    mod = 16 if q else 4
    with open(cfg, 'w') as f:
        f.write('SPECIFICATION Spec\nCONSTANTS\n  Flags = {0, 1, 2, 3, 4, 9}\n  YS = %s\n  QS = %s\n  SampleMod = %d\n  SampleRes = %d\n'
                'INVARIANT OptimalAtEachDistance\nINVARIANT ChiIsGridMinimum\nINVARIANT EmitInv\nCHECK_DEADLOCK FALSE\n'
                % ('{4, 8, 11}' if q else '{4, 6, 8, 11}', '{1, 2, 3}', mod, ctx.seed % mod))
    res = model_check(ctx, 'MC_FitDist', cfg, timeout=3000, coverage=False)
    table = None
    em = []
    for v in res['emitted']:
        if isinstance(v, dict) and 'grid' in v:
            table = v['grid']
        elif isinstance(v, dict) and 'rows' in v:
            em.append(v)
    if not em or table is None:
        raise MachineryError('no behaviours emitted')
    ctx.notes['mc_constants'] = ('2 bands, all 36 flag pairs x 3 data values x 3 qualities, 2 cubes of 3 models (pure inverse square; exact ties over the grid, non-monotone, duplicated model), '
                                 '3 extinction patterns, 4 A_V ranges, 1..3 distances; ASSUMEd theorems: grid minimality for spans 0..5 x steps sp/sq in 1..7, exact table construction for 4 recipes x ratios {2, 10}')
    ctx.notes['behaviours_emitted'] = len(em)
    ctx.sample({'behaviour': em[len(em) // 2]})
    root = ctx.mkdtemp('dist')
    groups = {}
    for b in em:
        k = (b['cfg']['c'], b['cfg']['k'], b['cfg']['r'], b['cfg']['nd'])
        groups.setdefault(k, []).append(b)
    items = sorted(groups.items())
    for cols in pmap(lambda ch: [replay_group(k, bs, root, ctx.seed) for k, bs in ch], items, chunks_per_proc=1):
        for col in cols:
            col.merge_into(ctx)
    grid_sizes(ctx, table, root)
    dist_traces(ctx, 200 if q else 2000)
    ctx.assumptions += ['aperture tables are constructed by the harness from the desired cube (on a knot / midway between two knots / beyond the largest knot); the construction is checked exactly by TLC on integer-dex instances',
                        'distance grids are geometric (ratio 2 or 10) with logd_step chosen off the exact multiple; the reported scale is compared with log10 of the grid distance by index']
