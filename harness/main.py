from .common import main_dispatch

REGISTRY = {
    'C01': 'harness.fitkernel',
    'C02': 'harness.c02',
    'C03': 'harness.fitkernel',
    'C04': 'harness.fitkernel',
    'C05': 'harness.c05',
    'C06': 'harness.c06',
    'C07': 'harness.c07',
    'C08': 'harness.c08',
    'C09': 'harness.c09',
    'C10': 'harness.session',
    'C11': 'harness.fitkernel',
    'C12': 'harness.c12',
    'C13': 'harness.c13',
    'C14': 'harness.c14',
    'C15': 'harness.c12',
    'C16': 'harness.c16',
    'C17': 'harness.c17',
    'C18': 'harness.session',
    'C19': 'harness.c19',
    'C20': 'harness.c20',
    'X01': 'harness.x01',      # extension checks (not listed properties; not in MANIFEST)
    'X02': 'harness.x02',
    'X03': 'harness.x03',
    'X04': 'harness.x04',
    'X05': 'harness.x05',
    'X06': 'harness.x06',
    'X07': 'harness.x07',
    'X08': 'harness.x08',
    'X09': 'harness.x09',
    'X10': 'harness.x10',
}

if __name__ == '__main__':
    main_dispatch(REGISTRY)
