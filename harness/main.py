from .common import main_dispatch

REGISTRY = {
    'C05': 'harness.c05',
}

if __name__ == '__main__':
    main_dispatch(REGISTRY)
