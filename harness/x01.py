"""X01 (extension, not one of the listed properties) -- the radius finders of ConvolvedFluxes.

spec/Radius.tla transcribes find_radius_sigma / find_radius_cumul (the loops) and relates them to a
declarative reading; every small table is replayed into the real methods.
"""
import numpy as np

from .common import model_check, MachineryError, pmap, Collector
from .fitworld import frac, fclose


def replay_chunk(behs):
    from astropy import units as u
    from sedfitter.convolved_fluxes import ConvolvedFluxes
    col = Collector()
    for b in behs:
        aps, fl = b['aps'], b['fl']
        # several models in one table: the behaviour's model next to two decoys (the methods are vectorised over models)
        c = ConvolvedFluxes()
        c.central_wavelength = 1.0 * u.micron
        c.model_names = np.array(['decoy1', 'model', 'decoy2'])
        c.apertures = np.array(aps, dtype=float) * u.au
        rows = [[float(i + 1) for i in range(len(aps))], [float(x) for x in fl], [float(len(aps) - i) for i in range(len(aps))]]
        c.flux = np.array(rows) * u.mJy
        c.error = np.zeros((3, len(aps))) * u.mJy
        for key, meth, exp in (('sigma', c.find_radius_sigma, b['sigma']), ('cumul', c.find_radius_cumul, b['cumul'])):
            for fs, want in exp.items():
                num, den = [int(x) for x in fs.strip('<>[]() ').replace(' ', '').split(',')] if not isinstance(fs, (list, tuple)) else fs
                try:
                    got = float(meth(num / float(den))[1].to(u.au).value)
                except Exception as e:
                    col.violation('X01:%s:raised' % key, 'find_radius_%s(%d/%d) on radii %r fluxes %r raised %r' % (key, num, den, aps, fl, e), b)
                    continue
                col.replayed += 1
                w = float(frac(want))
                if not fclose(got, w, 1e-9, 1e-12):
                    col.violation('X01:%s:value' % key, 'find_radius_%s(%d/%d) on radii %r AU, fluxes %r: %r AU, spec %r AU' % (key, num, den, aps, fl, got, w), b)
    return col


def run(ctx):
    res = model_check(ctx, 'Radius', 'MC_Radius.cfg', timeout=900, coverage=False)
    em = [b for b in res['emitted'] if isinstance(b, dict) and 'sigma' in b]
    if not em:
        raise MachineryError('no behaviours emitted')
    ctx.notes['mc_constants'] = 'tables of 2..4 radii out of {1,2,3,5} AU with fluxes in {0,1,3,4,9} (non-monotone included), fractions 1/2, 99/100, 1/10'
    ctx.notes['behaviours_emitted'] = len(em)
    ctx.notes['exhaustive'] = True
    ctx.sample({'behaviour': em[len(em) // 2]})
    for col in pmap(replay_chunk, em):
        col.merge_into(ctx)
