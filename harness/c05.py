"""C05 -- selection tuples keep exactly the promised fits.

spec/Select.tla (operators) + MC_Select (state machine, exhaustive) + Gen_Select (behaviour
tables) replayed into FitInfo.keep + Trace_Select (recorded random keep histories).
"""
import random

import numpy as np

from .common import model_check, run_tlc, validate_traces, MachineryError, pmap, Collector

NW = 3  # columns of model_fluxes


# ---- projection pi ---------------------------------------------------------
def conc(v):
    k, a = v['k'], v['v']
    if k == 'fin':
        return a / 4.0
    if k == 'big':
        return a * 1e30
    if k == 'bigh':
        return (a + 0.5) * 1e30
    if k == 'inf':
        return np.inf
    if k == 'nan':
        return np.nan
    raise ValueError(k)


def conc_sel(sel):
    if sel['f'] == 'A':
        return ('A', 0)
    if sel['f'] == 'N':
        return ('N', sel['v'])
    return (sel['f'], conc(sel['v']))


def make_source(nd, rng=None):
    """a source whose n_data is nd: nd points flagged 1/4 plus points flagged 0,2,3,9 that
    must not be counted"""
    from sedfitter.source import Source
    flags = [1 if i % 2 == 0 else 4 for i in range(nd)] + [0, 2, 3, 9]
    s = Source()
    s.name = 'src'
    s.x = 1.0
    s.y = 2.0
    s.valid = np.array(flags, dtype=int)
    # flag-4 points carry LOG10 fluxes, which are zero or negative for anything at or below 1 mJy: they count like any other
    s.flux = np.array([(1.0 if f_ != 4 else [-1.5, 0.0][i % 2]) for i, f_ in enumerate(flags)])
    s.error = np.ones(len(flags)) * 0.1
    return s


def make_info(chis, nd, with_fluxes=True):
    from sedfitter.fit_info import FitInfo
    n = len(chis)
    info = FitInfo(source=make_source(nd))
    ids = np.arange(1, n + 1)
    info.chi2 = np.array([conc(c) for c in chis], dtype=float)
    info.av = ids * 0.5
    info.sc = -ids * 0.25
    info.model_id = ids.copy()
    info.model_name = np.array(['model_%03d' % i for i in ids], dtype='U20')
    info.model_fluxes = (ids[:, None] * 10.0 + np.arange(NW)[None, :]) if with_fluxes else None
    return info


def project(info):
    """row ids still held by every per-fit array"""
    def ids_of(a, dec):
        return [int(dec(x)) for x in a]
    out = {
        'n': int(info.n_fits),
        'ids_chi2': None,  # filled by caller (needs original vector)
        'ids_av': ids_of(info.av, lambda x: round(x / 0.5)),
        'ids_sc': ids_of(info.sc, lambda x: round(-x / 0.25)),
        'ids_id': ids_of(info.model_id, int),
        'ids_name': ids_of(info.model_name, lambda x: int(str(x).split('_')[1])),
        'has_flux': 0 if info.model_fluxes is None else 1,
        'ids_flux': [] if info.model_fluxes is None else
        [int(round(r[0] / 10.0)) if all(abs(r[j] - r[0] - j) < 1e-9 for j in range(NW)) else -1
         for r in np.asarray(info.model_fluxes).reshape(-1, NW)],
    }
    return out


def chi_ids(info, orig):
    """ids of the chi2 entries: position-wise identical (NaN aware) to the original prefix"""
    out = []
    for i, x in enumerate(info.chi2):
        if i < len(orig) and (x == orig[i] or (np.isnan(x) and np.isnan(orig[i]))):
            out.append(i + 1)
        else:
            out.append(-1)
    return out


def key(chis, nd):
    return (tuple((c['k'], c['v']) for c in chis), nd)


# ---- spec -> code ------------------------------------------------------------
def replay(ctx, table, sels):
    entries = sorted(table.items(), key=lambda kv: repr(kv[0]))
    for col in pmap(lambda chunk: replay_chunk(chunk, table, sels, ctx.seed, ctx.thorough), entries):
        col.merge_into(ctx)


def replay_chunk(entries, table, sels, seed, thorough):
    ctx = Collector()
    rng = random.Random(seed * 1000003 + hash(repr(entries[0][0])) % 1000003)
    nsel = len(sels)
    csel = [conc_sel(s) for s in sels]
    n_pairs = 0
    for (kchis, nd), (chis, cnt) in entries:
        orig = np.array([conc(c) for c in chis], dtype=float)
        n0 = len(chis)
        for i in range(nsel):
            if nd == 0 and sels[i]['f'] in ('E', 'F'):
                continue            # per-datapoint criteria of a source WITHOUT a fitted point divide by zero: outside the property
            for with_fluxes in ((True, False) if (i % 7 == 0) else (True,)):
                info = make_info(chis, nd, with_fluxes)
                src_before = info.source.__getstate__()
                try:
                    info.keep(csel[i])
                    obs = project(info)
                    obs['ids_chi2'] = chi_ids(info, orig)
                except Exception as e:  # an exception is an observable outcome
                    obs = {'n': -1, 'exc': repr(e)}
                lo, hi = cnt[i]
                ok = lo <= obs['n'] <= hi
                if ok:
                    want = list(range(1, obs['n'] + 1))
                    for f in ('ids_chi2', 'ids_av', 'ids_sc', 'ids_id', 'ids_name'):
                        ok = ok and obs[f] == want
                    if with_fluxes:
                        ok = ok and obs['ids_flux'] == want
                    else:
                        ok = ok and obs['has_flux'] == 0
                ctx.replayed += 1
                if not ok:
                    ctx.violation('keep:%s' % sels[i]['f'],
                                  'FitInfo.keep(%r) on chi2=%r n_data=%d: spec admits counts %s with all arrays the same prefix, observed %r'
                                  % (csel[i], orig.tolist(), nd, [lo, hi], obs),
                                  {'chis': chis, 'nd': nd, 'selectors': [sels[i]], 'expected_counts': [[lo, hi]],
                                   'observed': obs, 'with_fluxes': with_fluxes})
                    continue
                # second keep: expected result is the table line of the prefix vector
                n1 = obs['n']
                if n0 == 0:
                    continue
                js = rng.sample(range(nsel), 16 if thorough else 5)
                pk = (kchis[:n1], nd)
                if pk not in table:
                    raise MachineryError('prefix vector not enumerated: %r' % (pk,))
                pcnt = table[pk][1]
                for j in js:
                    if nd == 0 and sels[j]['f'] in ('E', 'F'):
                        continue
                    info2 = make_info(chis, nd, True)
                    info2.keep(csel[i])
                    try:
                        info2.keep(csel[j])
                        n2 = int(info2.n_fits)
                        ids2 = project(info2)
                        ids2['ids_chi2'] = chi_ids(info2, orig)
                    except Exception as e:
                        n2, ids2 = -1, {'exc': repr(e)}
                    lo2, hi2 = pcnt[j]
                    ok2 = lo2 <= n2 <= hi2
                    if ok2:
                        want = list(range(1, n2 + 1))
                        ok2 = all(ids2[f] == want for f in ('ids_chi2', 'ids_av', 'ids_sc', 'ids_id', 'ids_name', 'ids_flux'))
                    n_pairs += 1
                    ctx.replayed += 1
                    if not ok2:
                        ctx.violation('keep2:%s:%s' % (sels[i]['f'], sels[j]['f']),
                                      'keep(%r) then keep(%r) on chi2=%r n_data=%d: spec admits %s after the second call, observed %r'
                                      % (csel[i], csel[j], orig.tolist(), nd, [lo2, hi2], ids2),
                                      {'chis': chis, 'nd': nd, 'selectors': [sels[i], sels[j]],
                                       'expected_counts': [[lo, hi], [lo2, hi2]], 'observed': ids2})
        if len(ctx.viol) > 20:
            break
    ctx.extra['replayed_two_step'] = n_pairs
    return ctx


# ---- code -> spec ------------------------------------------------------------
def rand_value(rng):
    r = rng.random()
    if r < 0.80:
        return {'k': 'fin', 'v': rng.choice([0, 1, 2, 3, 8, 40]) + 4 * rng.randint(0, 60)}
    if r < 0.90:
        return {'k': 'big', 'v': rng.randint(1, 3)}
    if r < 0.95:
        return {'k': 'inf', 'v': 0}
    return {'k': 'nan', 'v': 0}


def sort_key(v):
    rk = {'fin': 0, 'big': 1, 'inf': 2, 'nan': 3}[v['k']]
    return (rk, v['v'])


def rand_selector(rng, chis):
    f = rng.choice('ANNCDEF')
    if f == 'A':
        return {'f': 'A', 'narg': 0}
    if f == 'N':
        return {'f': 'N', 'narg': rng.randint(0, len(chis) + 3)}
    r = rng.random()
    fins = [c['v'] for c in chis if c['k'] == 'fin']
    if r < 0.70:
        thr = {'k': 'fin', 'v': rng.randint(-3, 260)}
    elif r < 0.85 and fins:
        thr = {'k': 'fin', 'v': rng.choice(fins)}      # exactly attained: boundary
    elif r < 0.95:
        thr = {'k': 'bigh', 'v': rng.randint(0, 3)}
    else:
        thr = {'k': 'inf', 'v': 0}
    return {'f': f, 'thr': thr}


def record_traces(ctx, n_traces, max_len):
    rng = random.Random(ctx.seed * 7919 + 5)
    traces = []
    for t in range(n_traces):
        n = rng.choice([0, 1, 2, 3, 5, 8, 13, 21, 34, 40][:1 + rng.randint(0, 9)]) if max_len >= 40 else rng.randint(0, max_len)
        n = min(n, max_len)
        chis = sorted([rand_value(rng) for _ in range(n)], key=sort_key)
        if rng.random() < 0.3 and n > 2:   # force ties
            chis[1] = dict(chis[0])
        nd = rng.choice([1, 1, 2, 3, 4, 5, 6])          # (n_data = 0 makes E/F divide by zero: outside the property)
        with_fluxes = rng.random() < 0.7
        info = make_info(chis, nd, with_fluxes)
        orig = np.array([conc(c) for c in chis], dtype=float)
        tr = [{'ev': 'Init', 'chis': chis, 'nd': nd}]
        for _ in range(rng.randint(1, 4)):
            sel = rand_selector(rng, chis)
            csel = ('A', 0) if sel['f'] == 'A' else (('N', sel['narg']) if sel['f'] == 'N' else (sel['f'], conc(sel['thr'])))
            info.keep(csel)
            ev = {'ev': 'Keep', 'f': sel['f'], 'narg': sel.get('narg', 0), 'thr': sel.get('thr', {'k': 'fin', 'v': 0})}
            ev.update(project(info))
            ev['ids_chi2'] = chi_ids(info, orig)
            tr.append(ev)
        traces.append(tr)
    return traces


def run(ctx):
    q = not ctx.thorough
    # 1. the design: exhaustive model check
    res = model_check(ctx, 'MC_Select', 'MC_Select.cfg' if q else 'MC_Select_t.cfg', timeout=3000, coverage=False)
    ctx.notes['mc_constants'] = 'MaxLen=%d, alphabet {0,1,2.5,7,Big1,Big2,Inf,NaN}, n_data 0..3, 44-50 selectors, keep histories <= 2' % (5 if q else 6)
    # small instance with coverage to exclude vacuity
    cov = model_check(ctx, 'MC_Select', 'MC_Select_cov.cfg', timeout=600, coverage=True)
    # 2. behaviours
    gen = run_tlc(ctx, 'MC_Select', 'Gen_Select.cfg' if q else 'Gen_Select_t.cfg', timeout=1200, coverage=False)
    sels = None
    table = {}
    for v in gen['emitted']:
        if 'selectors' in v:
            sels = v['selectors']
        else:
            table[key(v['chis'], v['nd'])] = (v['chis'], v['cnt'])
    if not sels or not table:
        raise MachineryError('no behaviours emitted')
    ctx.sample({'behaviour': {'chis': table[sorted(table, key=repr)[len(table) // 2]][0], 'selectors': sels[:3]}})
    replay(ctx, table, sels)
    ctx.notes['behaviour_tables'] = len(table)
    # 3. recorded traces
    traces = record_traces(ctx, 1500 if q else 12000, 40)
    ctx.sample({'trace': traces[3]})
    rejected = validate_traces(ctx, 'Trace_Select', 'Trace_Select.cfg', traces)
    for idx, viol in rejected[:10]:
        ctx.violation('trace:%s' % (viol[0][1] if viol else '?'),
                      'recorded keep() history rejected by Trace_Select at %r' % (viol,),
                      {'trace': traces[idx], 'viol': viol})
    ctx.notes['exhaustive'] = True
    ctx.assumptions += ['FitInfo objects are built through the public constructor and attributes',
                        'thresholds equal to an attained value admit both counts (property excludes them)',
                        'n_data = 0 is outside the property layer (x/0), kept in the algorithm layer with IEEE rules']
