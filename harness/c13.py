"""C13 -- aperture interpolation: exact at tabulated radii, linear between, clamped above, refused below.

spec/ApInterpOps.tla + ApInterp.tla (tables built knot by knot; exhaustive) replayed into
ConvolvedFluxes.interpolate, SED.interpolate, SED.interpolate_variable + Trace_ApInterp.
"""
import random

import numpy as np

from .common import model_check, validate_traces, MachineryError, pmap, Collector, dec7
from .fitworld import frac, fclose

UNITS = ['au', 'pc', 'cm', 'kpc', 'Mpc']          # incl. units in which the stored numbers are tiny


def make_conv(aps, rows, unit):
    from astropy import units as u
    from sedfitter.convolved_fluxes import ConvolvedFluxes
    n = len(rows)
    c = ConvolvedFluxes()
    c.central_wavelength = 3.6 * u.micron
    c.model_names = np.array(['mod_%d' % (n - r) for r in range(n)], dtype='U30')
    c.apertures = (np.array(aps, dtype=float) * u.au).to(getattr(u, unit))
    c.flux = np.array(rows, dtype=float) * u.mJy
    c.error = np.array([rows[(r + 1) % n] for r in range(n)], dtype=float) * u.mJy
    if (len(aps) + n) % 2:
        c.error = c.error.to(u.Jy)            # the error column may be held in another unit than the flux column
    return c


def make_sed(aps, rows, unit):
    """rows are wavelengths: flux[aperture, wavelength]"""
    from astropy import units as u
    from sedfitter.sed import SED
    nw = len(rows)
    s = SED()
    s.name = 'sed'
    s.distance = 1.0 * u.kpc
    s.wav = np.array([1.0 + 2.0 * w for w in range(nw)]) * u.micron
    s.nu = s.wav.to(u.Hz, equivalencies=u.spectral())
    s.apertures = (np.array(aps, dtype=float) * u.au).to(getattr(u, unit))
    s.flux = np.array(rows, dtype=float).T * u.mJy
    s.error = np.array(rows, dtype=float).T * 0.1 * u.mJy
    return s


def call(api, aps, rows, unit, req2, req_unit, subset=None):
    """returns ('refused', exc) or ('ok', out[row][k], meta_ok)"""
    from astropy import units as u
    req = np.array(req2, dtype=float) / 2.0

    def on_table(table_q, ru):
        """the request as a quantity in unit ru / as bare AU numbers (ru None).  A request ON a tabulated radius is
        DERIVED FROM THE TABLE (its stored value converted to the request's unit), which is what "the tabulated
        radius in another unit" means in floating point; every other request comes from its AU number."""
        out = (req * u.au).to(ru if ru is not None else u.au)
        for k_, r2 in enumerate(req2):
            if r2 % 2 == 0 and (r2 // 2) in aps:
                out[k_] = table_q[aps.index(r2 // 2)].to(out.unit)
        return out if ru is not None else out.value
    if api == 'conv':
        c = make_conv(aps, rows, unit)
        q = on_table(c.apertures, getattr(u, req_unit))
        try:
            if (len(req2) + len(aps)) % 2:
                # the same table object has already served another request (above, on and inside the table)
                try:
                    c.interpolate((np.array([aps[-1] * 3.0, aps[0], 0.5 * (aps[0] + aps[-1])]) * u.au).to(getattr(u, req_unit)))
                except Exception:
                    pass
            o = c.interpolate(q)
        except Exception as e:
            return ('refused', repr(e), None)
        meta = (list(o.model_names) == list(c.model_names) and o.central_wavelength == c.central_wavelength
                and o.flux.shape == (len(rows), len(req2)) and o.error.shape == (len(rows), len(req2)))
        n = len(rows)
        # error rows are the flux rows shifted by one model: check them with the same expectation
        return ('ok', [[float(x) for x in r] for r in o.flux.to(u.mJy).value],
                meta, [[float(x) for x in o.error.to(u.mJy).value[(r - 1) % n]] for r in range(n)])
    s = make_sed(aps, rows, unit)
    if api in ('sed', 'sedq'):
        try:
            if api == 'sed':
                o = s.interpolate(on_table(s.apertures, None))            # bare numbers = AU, as plot() passes them
            else:
                o = s.interpolate(on_table(s.apertures, getattr(u, req_unit)))   # quantities are accepted too
        except Exception as e:
            return ('refused', repr(e), None)
        o = np.asarray(getattr(o, 'value', o), dtype=float)
        return ('ok', [[float(x) for x in r] for r in o], o.shape == (len(rows), len(req2)), None)
    if api == 'var':
        # filters sit on SED wavelengths: request k applies to row k.  `subset` (a permutation of a subset of the
        # rows, >= 2 of them) says which SED wavelengths carry a filter and in which order the filters are listed;
        # rows without a filter are only interpolated in between and are not compared.
        wavs = s.wav.to(u.micron).value.copy()
        sel = list(range(len(rows))) if subset is None else list(subset)
        try:
            o = s.interpolate_variable(wavs[sel], on_table(s.apertures, None)[sel].copy())
        except Exception as e:
            return ('refused', repr(e), None)
        o = np.asarray(getattr(o, 'value', o), dtype=float)
        return ('ok', [float(x) for x in o], o.shape == (len(rows),), None)
    raise ValueError(api)


def replay_chunk(behs, seed):
    col = Collector()
    rng = random.Random(seed + len(behs))
    for b in behs:
        aps, rows = b['aps'], b['rows']
        exp = {int(k): v for k, v in b['exp'].items()}
        allq = sorted(exp)
        good = [q for q in allq if exp[q] != []]
        small = [q for q in allq if exp[q] == []]
        nrows = len(rows)
        for api in ('conv', 'sed', 'sedq', 'var'):
            unit = rng.choice(UNITS)
            req_unit = rng.choice(UNITS)
            calls = []
            if api == 'var':
                if good:
                    calls.append([rng.choice(good) for _ in range(nrows)])
                if small and good:
                    calls.append([rng.choice(small)] + [rng.choice(good) for _ in range(nrows - 1)])
            else:
                if good:
                    calls.append(list(good))
                    if len(good) > 2:
                        calls.append(rng.sample(good, len(good)))      # the radii of one request need not be sorted
                for q in small[:2]:
                    calls.append(good[:3] + [q])
            for req2 in calls:
                subset = None
                if api == 'var' and nrows >= 2:
                    subset = rng.sample(range(nrows), rng.randint(2, nrows))       # filters on some wavelengths only, listed in any order
                res = call(api, aps, rows, unit, req2, req_unit, subset=subset)
                col.replayed += 1
                want_refuse = any(exp[q] == [] for k_, q in enumerate(req2) if (subset is None or api != 'var' or k_ in subset))
                desc = {'api': api, 'aps_AU': aps, 'table_unit': unit, 'request_unit': req_unit if api in ('conv', 'sedq') else 'bare AU',
                        'rows': rows, 'requests_AU': [q / 2.0 for q in req2]}
                if (res[0] == 'refused') != want_refuse:
                    sig = 'C13:%s:%s' % (api, 'raised' if res[0] == 'refused' else 'not_refused')
                    if res[0] == 'refused' and 'UnitConversionError' in res[1]:
                        sig = 'C13:%s:bare_number_apertures_raise_UnitConversionError' % api
                    col.violation(sig, '%s on radii %r AU (stored in %s), requests %r AU: %s, spec says %s'
                                  % (api, aps, unit, desc['requests_AU'], res[1] if res[0] == 'refused' else 'returned values', 'refuse' if want_refuse else 'values'),
                                  dict(desc, observed=res[1] if res[0] == 'refused' else res[1]))
                    continue
                if res[0] == 'refused':
                    continue
                out = res[1]
                bad = None
                if not res[2]:
                    bad = 'names / wavelength / shape changed'
                for k, q in enumerate(req2):
                    if bad:
                        break
                    for r in range(nrows):
                        if api == 'var' and (r != k or (subset is not None and k not in subset)):
                            continue
                        w = float(frac(exp[q][r]))
                        got = out[k] if api == 'var' else out[r][k]
                        alt = None
                        if api == 'var' and q >= 2 * aps[-1] and len(aps) > 1:
                            # plotting clamp 0.999 * max is an admitted alternative
                            x0, x1, y0, y1 = aps[-2], aps[-1], rows[r][-2], rows[r][-1]
                            alt = y0 + (0.999 * x1 - x0) * (y1 - y0) / float(x1 - x0)
                        if not (fclose(got, w, 1e-9, 1e-12) or (alt is not None and fclose(got, alt, 1e-9, 1e-12))):
                            bad = 'row %d request %g AU: %r, spec %r' % (r, q / 2.0, got, w)
                            break
                        if api == 'conv' and not fclose(res[3][r][k], w, 1e-9, 1e-12):
                            bad = 'error row %d request %g AU: %r, spec %r' % (r, q / 2.0, res[3][r][k], w)
                            break
                if bad:
                    col.violation('C13:%s:value' % api, '%s on radii %r AU (stored in %s): %s' % (api, aps, unit, bad), dict(desc, observed=out))
    return col


def record(seeds):
    out = []
    for sd in seeds:
        rng = random.Random(sd)
        nk = rng.randint(1, 8)
        aps = sorted(rng.sample(range(1, 60), nk))
        nrows = rng.randint(1, 6)
        rows = [[rng.randint(0, 40) for _ in range(nk)] for _ in range(nrows)]
        tr = [{'ev': 'Table', 'aps': aps, 'rows': rows}]
        for _ in range(rng.randint(1, 5)):
            api = rng.choice(['conv', 'sed', 'sedq', 'var'])
            nreq = nrows if api == 'var' else rng.randint(1, 5)
            req2 = []
            for _k in range(nreq):
                r = rng.random()
                req2.append(2 * rng.choice(aps) if r < 0.3 else (rng.randint(1, 2 * aps[0]) if r < 0.4 else rng.randint(2 * aps[0], 2 * aps[-1] + 20)))
            unit, req_unit = rng.choice(UNITS), rng.choice(UNITS)
            res = call(api, aps, rows, unit, req2, req_unit)
            edgeconv = False        # requests on a tabulated radius are derived from the table: no boundary is admitted any more
            ev = {'ev': 'Call', 'api': api, 'req2': req2, 'refused': int(res[0] == 'refused'), 'out': [], 'rowof': list(range(1, nrows + 1)),
                  'meta': 1, 'edgeconv': int(edgeconv)}
            if res[0] == 'ok':
                ev['meta'] = int(bool(res[2]))
                if api == 'var':
                    ev['out'] = [[dec7(res[1][k]) if r == k else [0, 0] for k in range(nreq)] for r in range(nrows)]
                else:
                    ev['out'] = [[dec7(x) for x in r] for r in res[1]]
            tr.append(ev)
        out.append(tr)
    return out


def run(ctx):
    q = not ctx.thorough
    cfg = ctx.tmp('ap.cfg')
    mod = 2 if q else 8
    with open(cfg, 'w') as f:
        f.write('SPECIFICATION Spec\nCONSTANTS\n  Radii = {1, 2, 4, 8, 16}\n  Vals = %s\n  NRows = 2\n  MaxKnots = %d\n'
                '  Req2 = {1, 2, 3, 4, 5, 6, 8, 11, 12, 16, 24, 31, 32, 33, 40}\n  SampleMod = %d\n  SampleRes = %d\n'
                'INVARIANT ExactAtKnots\nINVARIANT LinearBetween\nINVARIANT ClampedAbove\nINVARIANT RefusedBelow\nINVARIANT SingleRepeats\n'
                'INVARIANT CallIsPointwise\nINVARIANT EmitInv\nCHECK_DEADLOCK FALSE\n' % ('{0, 1, 3}' if q else '{0, 1, 2, 3}', 3 if q else 4, mod, ctx.seed % mod))
    res = model_check(ctx, 'ApInterp', cfg, timeout=3000, coverage=False)
    em = res['emitted']
    if not em:
        raise MachineryError('no behaviours emitted')
    ctx.notes['mc_constants'] = 'radii subsets of {1,2,4,8,16} AU with 1..%d knots, 2 rows, values %s, 15 requests from below to above the table' % (3 if q else 4, '{0,1,3}' if q else '0..3')
    ctx.notes['behaviours_emitted'] = len(em)
    ctx.sample({'behaviour': em[len(em) // 2]})
    for col in pmap(lambda c: replay_chunk(c, ctx.seed), em):
        col.merge_into(ctx)
    seeds = [ctx.seed * 100003 + i for i in range(600 if q else 6000)]
    trs = []
    for part in pmap(record, seeds):
        trs.extend(part)
    ctx.sample({'trace': trs[0]})
    rejected = validate_traces(ctx, 'Trace_ApInterp', 'Trace_ApInterp.cfg', trs, chunk=1000)
    for idx, viol in rejected[:10]:
        ctx.violation('C13:trace:%s' % (viol[0][1] if viol else '?'), 'recorded interpolation rejected: %r' % (viol,), {'trace': trs[idx], 'viol': viol})
    ctx.assumptions += ['SED.interpolate / interpolate_variable are driven with bare numbers in AU (as plot() passes them); ConvolvedFluxes.interpolate with quantities in AU, pc or cm',
                        'the 0.999 * largest-radius clamp of the plotting variant is an admitted alternative above the table']
