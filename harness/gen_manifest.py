"""Regenerate MANIFEST.json from harness/manifest_data.py (keeps it valid at all times)."""
import json, os, sys
sys.path.insert(0, os.path.dirname(os.path.dirname(os.path.abspath(__file__))))
from harness.manifest_data import CHECKS, NOT_APPLICABLE, HOOK_COMMITS

ALL = ['C%02d' % i for i in range(1, 21)]
checks = []
for pid in ALL:
    if pid not in CHECKS:
        continue
    c = CHECKS[pid]
    checks.append({
        'property_id': pid,
        'quick_cmd': 'bin/check %s quick' % pid,
        'thorough_cmd': 'bin/check %s thorough' % pid,
        'evidence_file': '/verif/evidence/%s.json' % pid,
        'replay_cmd_template': 'bin/replay {path}',
        'engine': 'tlc+replay',
        'level_claimed': {'category': 'model_checking', 'text': c['text'], 'design_ref': c['ref']},
        'level_note': c['note'],
        'technique': c['technique'],
    })
na = [{'property_id': p, 'reason': NOT_APPLICABLE.get(p, 'check not built yet (work in progress; see DESIGN.md section 6)')}
      for p in ALL if p not in CHECKS]
m = {
    'version': 1,
    'setup_cmd': 'bin/setup',
    'hooks': {
        'guard': 'SEDFITTER_VERIF',
        'enable': 'no source hooks are needed: every property is observed through the public API (DESIGN.md 5.1); the guard name is reserved',
        'baseline_off_cmd': 'cd /repo && /venv/bin/python -m pytest -ra -q -p no:cacheprovider --timeout=900 --continue-on-collection-errors',
        'source_commits': HOOK_COMMITS,
        'add_only': True,
    },
    'engines': [{'name': 'tlc+replay', 'path': '/verif/bin/check',
                 'serves_properties': [c['property_id'] for c in checks],
                 'kind_free_text': 'explicit TLA+ specification (spec/*.tla) model-checked with TLC; TLC-generated behaviours replayed into the real sedfitter API and recorded API traces validated by TLC trace specs'}],
    'checks': checks,
    'not_applicable': na,
    'notes': 'bin/check <id> quick|thorough; exit 0 held, 1 violation (VIOLATION line), 2 machinery failure. Evidence in evidence/<id>.json. Known findings in known_findings.json.',
}
json.dump(m, open(os.path.join(os.path.dirname(os.path.dirname(os.path.abspath(__file__))), 'MANIFEST.json'), 'w'), indent=1)
print('MANIFEST.json: %d checks, %d not claimed' % (len(checks), len(na)))
