"""C07 -- convolved-flux files keep model identity, identically in both package formats
(and the end-to-end half of C06: flux = sum F R, error = quadrature sum, through convolve_model_dir).

spec/Package.tla (rows, order_to_match, cube refusal; expected values from RebinOps) replayed on
real per-file and cube packages through convolve_model_dir, ConvolvedFluxes.read and Fitter.fit.
"""
import os
import random
import shutil
import tempfile

import numpy as np

from .common import model_check, MachineryError, pmap, Collector
from . import fitworld as fw
from . import pkgworld as pw
from .c06 import make_filter, UNU
from .fitworld import frac

GX = [2, 4, 6, 8, 12, 14, 16, 20]
GX2 = [2, 4, 8, 10, 12, 16, 18, 20]
FILTERS = [([3, 5, 6], [0, 2, 1]), ([10, 13, 17, 22], [1, 3, 3, 0]), ([9, 10, 11], [1, 2, 1])]      # as in Package.tla
NAMES = {1: 'mdl_a', 2: 'mdl_b', 3: 'mdl_c', 4: 'mdl_d'}
APS = [500.0, 4000.0]


def Fl(m, a, i):
    return 1 + ((7 * m + 3 * a + 5 * i) % 9)


def Er(m, a, i):
    return 1 + ((m + 2 * a + i) % 4)


def cname(i, k):
    """concrete model name of copy k of abstract model i"""
    return NAMES[i] if k == 0 else '%s_r%d' % (NAMES[i], k)


def kfac(k):
    return 1.0 + 2.0 * k                  # copy k carries the SED of its abstract model times this factor


def afac(ac):
    return 1.0 + 0.5 * (ac // 2)          # concrete aperture ac = abstract aperture ac % 2, times this factor


def concrete_aps(b, ra):
    return None if b['na'] == 1 else [APS[ac % 2] * (10.0 ** (ac // 2)) for ac in range(2 * ra)]


def build(d, b, rep=1, ra=1):
    """pi^-1.  CONCRETE SIZE: every abstract model stands for `rep` concrete models (copy k = the same SED x kfac(k), listed
    block-wise: all copies 0 in the abstract order, then all copies 1, ...) and the two abstract apertures for 2*ra concrete
    ones (aperture ac = abstract ac % 2, values x afac(ac)).  Convolution is linear (spec theorem Rebin!Linear), so the
    expected cell of (copy k, aperture ac) is the spec's cell times kfac(k) afac(ac)."""
    ng = len(GX)
    wav = sorted(12.0 / g for g in GX)                      # increasing wavelength; rank w <-> grid node ng - w
    aps = concrete_aps(b, ra)
    # the unit in which the SEDs / the cube store their aperture radii (it is carried over into the convolved files)
    apu = ['au', 'pc', 'cm'][(sum(b['tab']) * 3 + b['list'][0] + rep + ra) % 3] if aps is not None else 'au'
    if b['fmt'] == 'perfile':
        ids = [(i, k) for k in range(rep) for i in b['tab']]
        names = [cname(i, k) for i, k in ids]
        pos = {(m, k): k * len(b['list']) + j for k in range(rep) for j, m in enumerate(b['list'])}
        os.makedirs(os.path.join(d, 'seds'))
        fw.write_conf(d, aperture_dependent=(b['na'] > 1))
        for m, (i, k) in enumerate(ids):
            gx = GX2 if b['gsel'][i - 1] == 2 else GX            # every SED file may come on its own frequency grid
            wav_m = sorted(12.0 / g for g in gx)
            order = b['stored'][i - 1]
            p = os.path.join(d, 'seds', 'f%02d_%s_sed.fits' % (pos[(i, k)], cname(i, k)))
            vf = lambda a, w, i=i, k=k: kfac(k) * afac(a) * float(Fl(i, (a % 2) + 1, ng - w))
            ve = lambda a, w, i=i, k=k: kfac(k) * afac(a) * float(Er(i, (a % 2) + 1, ng - w))
            fu = 'nufnu' if (i + k + b['tab'][0]) % 2 else 'mJy'      # SED files hold F_nu in mJy or nu F_nu in erg/cm2/s
            if sum(b['tab'][:2]) % 2 or apu != 'au':
                pw.sed_object(cname(i, k), wav_m, aps, vf, ve, order, flux_unit=fu, ap_unit=apu).write(p)
            else:
                pw.write_sed_raw(p, cname(i, k), wav_m, aps, vf, ve, order, legacy_units=bool((i + k) % 2), flux_unit=fu)
        pw.write_parameters(d, names)
    else:
        ids = [(i, k) for k in range(rep) for i in b['list']]
        # the cube may store its fluxes in Jy instead of mJy (values scaled accordingly: same physical SEDs)
        cunit, cfac = ('Jy', 1e-3) if b['stored'][1] == 'asc' else ('mJy', 1.0)
        pw.build_cube(d, [cname(i, k) for i, k in ids], wav, aps,
                      lambda m, a, w: cfac * kfac(ids[m][1]) * afac(a) * float(Fl(ids[m][0], (a % 2) + 1, ng - w)),
                      lambda m, a, w: cfac * kfac(ids[m][1]) * afac(a) * float(Er(ids[m][0], (a % 2) + 1, ng - w)), order=b['stored'][0],
                      aperture_dependent=(b['na'] > 1), table_names=[cname(i, k) for k in range(rep) for i in b['tab']], flux_unit=cunit, ap_unit=apu, unc_twin=bool((b['list'][0] + rep) % 2))


def history_between(d):
    """fit one source with the single filter convolved so far and list its parameters (post-processing reads and
    sorts the parameter table); nothing of this may influence what a later convolution writes"""
    from astropy import units as u
    from sedfitter import fit, write_parameters
    data = os.path.join(d, 'hist_data.txt')
    with open(data, 'w') as f:
        f.write('h 0 0 1 2.0e14 2.0e13\n')
    out = os.path.join(d, 'hist.fitinfo')
    law = fw.make_extinction([3], [12.0 / 4.5])
    try:
        fit(data, ['fA'], np.array([1.0]) * u.arcsec, d, out, n_data_min=1, extinction_law=law, av_range=(0.0, 3.0),
            distance_range=np.array([1.0, 2.0]) * u.kpc, output_format=('A', 0))
        write_parameters(out, os.path.join(d, 'hist_pars.txt'), select_format=('A', 0))
    finally:
        for p in (data, out, os.path.join(d, 'hist_pars.txt')):
            if os.path.exists(p):
                os.remove(p)


def filters():
    fs = []
    for k, (fx, fy) in enumerate(FILTERS):
        f = make_filter(fx, fy, desc=bool(k), name='f%s' % 'ABC'[k])
        fs.append(f)
    return fs


def fit_all(d, na, memmap):
    """fit one fixed source with the package; returns name -> (av, sc, chi2)"""
    from astropy import units as u
    from sedfitter.source import Source
    law = fw.make_extinction([3, 1], [12.0 / 4.5, 12.0 / 16.0])
    with fw.quiet():
        from sedfitter.fit import Fitter
        ft = Fitter(['fA', 'fB'], np.array([1.0, 1.0]) * u.arcsec, d, extinction_law=law, av_range=(0.0, 3.0),
                    distance_range=np.array([1.0, 2.0]) * u.kpc, use_memmap=memmap)
    s = Source()
    s.name = 'x'
    s.x = 0.0
    s.y = 0.0
    s.valid = np.array([1, 1])
    s.flux = np.array([2.0e14, 4.0e15])
    s.error = np.array([2.0e13, 4.0e14])
    info = ft.fit(s)
    return {str(n).strip(): (float(a), float(sc), float(c)) for n, a, sc, c in zip(info.model_name, info.av, info.sc, info.chi2)}


def replay_chunk(items, root, seed, pid='C07', fits=True):
    from astropy import units as u
    from sedfitter.convolve import convolve_model_dir
    from sedfitter.convolved_fluxes import ConvolvedFluxes
    col = Collector()
    refs = {}
    for bi, b in items:
        d = tempfile.mkdtemp(dir=root)
        rep = 1 + ((bi + seed) // 2) % 2                # 3 or 6 concrete models
        ra = 1 + ((bi + seed) // 4) % 2                 # 2 or 4 concrete apertures (when the package has apertures)
        desc = {'behaviour': {k: b[k] for k in ('tab', 'list', 'stored', 'fmt', 'na', 'gsel')}, 'copies_per_model': rep, 'aperture_blocks': ra}
        try:
            build(d, b, rep, ra)
            try:
                with fw.quiet():
                    if bi % 3 == 1:
                        # a history: one filter, then a fit and a parameter listing on the same package, then the other
                        fs = filters()
                        convolve_model_dir(d, fs[:1], memmap=bool(bi % 2))
                        history_between(d)
                        convolve_model_dir(d, fs[1:], memmap=bool(bi % 2))
                    else:
                        convolve_model_dir(d, filters(), memmap=bool(bi % 2))
                refused = False
            except ValueError as e:
                refused = 'do not match' in str(e)
                if not refused:
                    raise
            col.replayed += 1
            if refused != b['refused']:
                col.violation('%s:cube_refusal' % pid, 'cube order %r, table order %r: %s, spec says %s' % (b['list'], b['tab'], 'refused' if refused else 'convolved',
                                                                                                     'refuse' if b['refused'] else 'convolve'), desc)
                continue
            if refused:
                continue
            bad = None
            for f, fn in enumerate(['fA', 'fB', 'fC']):
                r = ConvolvedFluxes.read(os.path.join(d, 'convolved', fn + '.fits'))
                names = [str(x).strip() for x in r.model_names]
                crows = [(row, k) for k in range(rep) for row in b['conv'][f]]
                want_names = [cname(row['model'], k) for row, k in crows]
                if names != want_names:
                    bad = ('order', '%s: rows %r, spec %r' % (fn, names, want_names))
                    break
                fx = FILTERS[f][0]
                if abs(r.central_wavelength.to(u.micron).value - 12.0 / (0.5 * (fx[0] + fx[-1]))) > 1e-9:
                    bad = ('filtwav', '%s: FILTWAV %r' % (fn, r.central_wavelength))
                    break
                if b['na'] > 1 and (r.apertures is None or len(r.apertures) != 2 * ra or not np.allclose(r.apertures.to(u.au).value, concrete_aps(b, ra), rtol=1e-6)):
                    bad = ('apertures', '%s: apertures %r' % (fn, r.apertures))
                    break
                fl = r.flux.to(u.mJy).value
                er = r.error.to(u.mJy).value
                tol = 2e-6 if b['fmt'] == 'cube' or True else 1e-9
                if fl.shape != (len(crows), 1 if b['na'] == 1 else 2 * ra) or er.shape != fl.shape:
                    bad = ('shape', '%s: flux table of shape %r for %d models x %d apertures' % (fn, fl.shape, len(crows), 1 if b['na'] == 1 else 2 * ra))
                    break
                for k, (row, kc) in enumerate(crows):
                    for a in range(1 if b['na'] == 1 else 2 * ra):
                        wf = float(frac(row['flux'][a % 2])) * UNU * kfac(kc) * afac(a)
                        we = (float(frac(row['err2'][a % 2])) ** 0.5) * UNU * kfac(kc) * afac(a)
                        if abs(fl[k, a] - wf) > tol * wf:
                            bad = ('flux', '%s row %d (%s) aperture %d: flux %r, spec %r (=%s x UNU)' % (fn, k, names[k], a, fl[k, a], wf, row['flux'][a % 2]))
                        elif abs(er[k, a] - we) > tol * we:
                            bad = ('error', '%s row %d (%s) aperture %d: error %r, spec sqrt(%s) x UNU = %r' % (fn, k, names[k], a, er[k, a], row['err2'][a % 2], we))
                        if bad:
                            break
                    if bad:
                        break
                if bad:
                    break
            if bad:
                col.violation('%s:%s:%s' % (pid, b['fmt'], bad[0]), '%s package, table order %r, listing/cube order %r, stored %r, grids %r, %d aperture(s): %s'
                              % (b['fmt'], b['tab'], b['list'], b['stored'], b['gsel'], b['na'], bad[1]), desc)
                continue
            # fits from either format, memory-mapped or not, agree
            for memmap in ((False, True) if fits else ()):
                got = fit_all(d, b['na'], memmap)
                col.replayed += 1
                key = (b['na'], tuple(b['gsel']) if b['fmt'] == 'perfile' else (1, 1, 1), rep, ra)
                if key not in refs:
                    refs[key] = got
                ref = refs[key]
                if set(got) != set(ref) or any(not (fw.fclose(got[n][i], ref[n][i], 2e-5 if memmap else 1e-7, 2e-5 if memmap else 1e-6) or
                                                    (np.isnan(got[n][i]) and np.isnan(ref[n][i]))) for n in ref for i in range(3)):
                    col.violation('%s:fits_disagree:%s' % (pid, 'memmap' if memmap else 'plain'),
                                  'fits from this %s package (memmap=%s) differ from another variant of the same SEDs: %r vs %r' % (b['fmt'], memmap, got, ref), desc)
                    break
        except Exception as e:
            col.violation('%s:raised:%s:%s' % (pid, b['fmt'], type(e).__name__), '%s package (table %r, order %r, stored %r, na %d): %r' % (b['fmt'], b['tab'], b['list'], b['stored'], b['na'], e), desc)
        finally:
            shutil.rmtree(d, ignore_errors=True)
    return col


def stage(ctx, pid, mod):
    """the end-to-end half of C06 (flux = sum F R, errors in quadrature, SEDs on their own grids) for another check"""
    cfg = ctx.tmp('pk_%s.cfg' % pid)
    with open(cfg, 'w') as f:
        f.write('SPECIFICATION Spec\nCONSTANTS\n  NM = 3\n  SampleMod = %d\n  SampleRes = %d\nINVARIANT RowsLabelledRight\nINVARIANT OrderFollowsTable\n'
                'INVARIANT CubeRefusesMismatch\nINVARIANT EmitInv\nCHECK_DEADLOCK FALSE\n' % (mod, ctx.seed % mod))
    res = model_check(ctx, 'Package', cfg, timeout=1800, coverage=False)
    em = [b for b in res['emitted'] if isinstance(b, dict) and 'tab' in b and not b['refused']]
    root = ctx.mkdtemp('pkg_%s' % pid)
    for col in pmap(lambda c: replay_chunk(c, root, ctx.seed, pid=pid, fits=False), list(enumerate(em))):
        col.merge_into(ctx)
    ctx.notes['end_to_end_packages'] = len(em)


def run(ctx):
    q = not ctx.thorough
    cfg = ctx.tmp('pk.cfg')
    mod = 18 if q else 3
    with open(cfg, 'w') as f:
        f.write('SPECIFICATION Spec\nCONSTANTS\n  NM = 3\n  SampleMod = %d\n  SampleRes = %d\nINVARIANT RowsLabelledRight\nINVARIANT OrderFollowsTable\n'
                'INVARIANT CubeRefusesMismatch\nINVARIANT CellsDistinct\nINVARIANT EmitInv\nCHECK_DEADLOCK FALSE\n' % (mod, ctx.seed % mod))
    res = model_check(ctx, 'Package', cfg, timeout=1800, coverage=False)
    em = [b for b in res['emitted'] if isinstance(b, dict) and 'tab' in b]
    if not em:
        raise MachineryError('no behaviours emitted')
    ctx.notes['mc_constants'] = '3 models: 6 table orders x 6 listing/cube orders x 2^3 stored spectral orders x {per-file, cube} x {1, 2} apertures x 3 assignments of two 8-node SED grids to the models; 2 filters'
    ctx.notes['behaviours_emitted'] = len(em)
    ctx.notes['exhaustive'] = True
    ctx.sample({'behaviour': {k: em[0][k] for k in ('tab', 'list', 'stored', 'fmt', 'na', 'gsel', 'refused')}})
    root = ctx.mkdtemp('pkg')
    for col in pmap(lambda c: replay_chunk(c, root, ctx.seed), list(enumerate(em))):
        col.merge_into(ctx)
    ctx.assumptions += ['per-file SED files are written alternately with SED.write and as raw FITS per docs/creating_model_packages.rst',
                        'fits are compared between variants of the same SEDs (paired); float32 memmap path to 2e-5 relative / 2e-5 absolute (log10 fluxes of order 14 held in float32 carry 1e-6 absolute error)',
                        'concrete size: every abstract model stands for 1 or 2 concrete models and the two abstract apertures for 2 or 4 concrete ones (values scaled per copy / aperture block; expected cells follow by linearity)']
