HOOK_COMMITS = []

NOT_APPLICABLE = {}

_NOTE = ('Trusted: TLC 1.8 + CommunityModules Json/IOUtils; numpy/astropy/scipy as installed; the projection pi in harness/ '
         '(abstract lattice value <-> concrete object).  TLC passes concern the spec; the code is bound by replaying every '
         'TLC-emitted behaviour through the public API and by TLC-validating recorded API traces.')

CHECKS = {
    'C05': {
        'text': 'Select.tla states keep() over abstract floats (Fin/Big/Inf/NaN with IEEE rules).  TLC checks exhaustively, for every ranked '
                'chi^2 vector of length 0..5 (thorough 0..6) over an 8-value alphabet with ties, infinity and NaN, n_data 0..3, 44 selectors '
                'and all histories of two keep calls, that count-then-slice keeps exactly the promised fits, as a prefix, idempotently and '
                'independently of a looser earlier cut.  Every enumerated (vector, selector) and sampled (thorough: all) selector pairs are '
                'replayed on real FitInfo objects with the whole projected state compared; random longer histories (length <= 40, <= 4 keeps) '
                'recorded from the code are validated by Trace_Select.',
        'ref': 'DESIGN.md section 6 C05',
        'note': _NOTE + ' Thresholds exactly equal to an attained value admit both counts (excluded by the property).',
        'technique': 'TLA+ spec + TLC exhaustive model checking; spec->code behaviour replay; code->spec trace validation',
    },
}
