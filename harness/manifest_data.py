HOOK_COMMITS = []

NOT_APPLICABLE = {}

_NOTE = ('Trusted: TLC 1.8 + CommunityModules Json/IOUtils; numpy/astropy/scipy as installed; the projection pi in harness/ '
         '(abstract lattice value <-> concrete object).  TLC passes concern the spec; the code is bound by replaying every '
         'TLC-emitted behaviour through the public API and by TLC-validating recorded API traces.')

CHECKS = {
    'C01': {
        'text': 'FitKernel.tla writes the aperture-independent fit in exact rational arithmetic on a quarter-dex lattice (2x2 normal equations, '
                'clamp, re-scale, chi^2 with limit penalties).  TLC checks on every enumerated source (all 6^3 flag vectors x data values x weights, '
                '3 model grids incl. exact ties, 3 extinction patterns, 5 A_V ranges incl. lo==hi and clamping) that the algorithm layer satisfies the '
                'KKT conditions of the constrained least-squares problem, beats integer competitors around the optimum, and that chi^2 is the minimum plus '
                'penalties.  A seed-chosen 1/8 (thorough 1/16 of a 25x larger space) of those behaviours is replayed through real Fitter.fit on real packages and every '
                "model's (A_V, scale, chi^2) compared by name; random wider sources/grids (2-4 bands, 1-8 models, +-12 dex) are recorded from the code "
                'and validated by Trace_FitKernel.  A second TLC run covers 4-band sources over flags {1,2,3} with two different confidences (two limits next to a non-singular regression).  The extinction law of every real world is tabulated in a representation drawn from a hash of the world (micron/nm/Angstrom/cm/mm, cm2/g | m2/kg, overall factor). TLC also checks ScaleK (coefficients x2 with the range halved give A_V/2 and nothing else changes); a third of the real worlds have coefficients 2^-13 as large. Representation twins: the same photometry as float arrays, integer arrays and lists must fit identically. A third of the worlds are cube-format packages.',
        'ref': 'DESIGN.md section 6 C01',
        'note': _NOTE + ' Inputs are lattice points (integers in quarter dex, W in {1,4,16}, K_j in 0..4); nothing is claimed about rounding-error growth off the lattice.',
        'technique': 'TLA+ spec (exact rational kernel) + TLC exhaustive check of KKT optimality; spec->code replay; code->spec trace validation',
    },
    'C02': {
        'text': 'MC_FitDist.tla: (a) the size of the log-uniform distance grid as exact rational arithmetic, with the theorem (ASSUMEd, i.e. evaluated by TLC) that it is the fewest points including both ends with spacing <= the step, for spans 0..5 and steps sp/sq, sp,sq in 1..7; '
                '(b) the exact construction of aperture tables from a desired cube for the recipes on-a-knot / midway-between-two-knots / beyond-the-largest-knot (ASSUMEd theorem on integer-dex instances, ratios 2 and 10); (c) per model and distance the 1-parameter A_V optimum, '
                'clip, chi^2 with penalties (FitKernel!FitAtDist), KKT certificate per distance and ChiIsGridMinimum, for all 36 flag pairs x values x qualities, 2 cubes (pure inverse square; exact ties over the grid, non-monotone, duplicated model), 3 extinction patterns, 4 A_V ranges, 1..3 distances.  '
                'Replay on real aperture-dependent packages of both formats (memmap on/off): models.distances and every cell of models.fluxes (interpolation x d^-2), then every model of every sampled FitInfo (scale = log10 of a grid distance in the admissible set, A_V, chi^2, predicted fluxes at that distance); '
                'grid sizes for 125 (span, step) combinations. Real worlds vary the unit of the distance range (kpc/pc/lyr), of the aperture radii handed to the fitter (arcsec/arcmin/deg) and of the tabulated radii (AU/pc/cm).',
        'ref': 'DESIGN.md section 6 C02',
        'note': _NOTE + ' Exact multiples span/step admit n or n+1 distances; a limit exactly met at some distance relaxes that model\'s comparison. remove_resolved is not modelled.',
        'technique': 'TLA+ spec (exact grid arithmetic, table construction, per-distance kernel) + TLC; spec->code replay through Fitter on constructed aperture tables',
    },
    'C03': {
        'text': 'The same kernel with the flag semantics as relational invariants checked by TLC for all 6^3 flag vectors (x values x qualities) and '
                'PenaltyOnlyOnForbiddenSide for all 6^4 and 6^5 flag vectors: ignored bands are irrelevant, limits never enter the LSQ, zero confidence == unused, '
                'certain limits give Big(n) chi^2, flag 4 == flag 1.  Replay: each sampled behaviour is run on the real fitter as is, with each junk token '
                '(-999, 0, 1e-30, 1e30) in the ignored bands, with flags 0<->9 swapped, and with flags 1<->4 swapped (documented transform); all variants must agree with each other '
                'and with the spec rows.  Representation twins: the same photometry handed over as float arrays, integer arrays and lists must give the same fit.',
        'ref': 'DESIGN.md section 6 C03',
        'note': _NOTE + ' A limit met exactly by the best fit (spec boundary flag) admits either chi^2.',
        'technique': 'TLA+ spec + TLC relational invariants over all flag vectors; spec->code replay with metamorphic variants; trace validation',
    },
    'C04': {
        'text': 'TLC checks that a ranking (permutation non-decreasing in chi^2 under Fin < Big(n)) exists and that the predicted log fluxes are model + A_V k - 2 scale for '
                'every enumerated source/grid (incl. duplicated and mirror-image models: exact ties; certain limits: Big chi^2).  Replay compares the whole FitInfo: every model exactly once, '
                'observed chi^2 non-decreasing, and per row (matched by model name) model_id, A_V, scale, chi^2 and every predicted flux. A dark-model stage inserts a model with zero flux in a fitted band at a seed-chosen position of the package (non-finite chi^2 listed before finite ones) and compares every spec row by name with shifted indices.',
        'ref': 'DESIGN.md section 6 C04',
        'note': _NOTE + ' Tie order is free.  Infinite chi^2 is produced by a small MC_Resolved instance (remove_resolved=True) replayed through the real Fitter; WHICH cells count as resolved is read from the fitter (that is the extension X02, not C04), and given that classification every row incl. predicted fluxes and the position of the inf rows is compared.',
        'technique': 'TLA+ spec + TLC; spec->code replay of whole FitInfo rows; trace validation (rank, ids, predicted fluxes)',
    },
    'C06': {
        'text': 'RebinOps.tla defines the binned response exactly: bins bounded by midpoints of adjacent SED frequencies, clipped to the filter range, R_i = exact integral of the piecewise-linear response (PwLin).  '
                'Rebin.tla enumerates every filter (2..3 nodes quick / 2..4 thorough out of 6-8 lattice frequencies, responses {0,1,2}, zero and non-zero edges) x every SED grid (2..4 / 2..5 nodes: coarser, finer, partial, disjoint, '
                'edge-coincident, last bin containing the last-but-one filter node) and TLC checks sum_i R_i = integral over the overlap, non-negativity, zero outside the filter, flat spectrum -> c for a normalised filter inside the grid, '
                'and linearity.  Sampled behaviours are replayed into Filter.rebin with filter and grid each stored in increasing and decreasing frequency, filters read from two-column wavelength files in either row order, and '
                'Filter.normalize; recorded random filters (2-60 samples, irregular spacing) and grids (2-80) are validated by Trace_Rebin.  convolve_model_dir end to end (flux and quadrature errors, both package formats) is replayed by the Package.tla stage (shared with C07) inside this check: every model of a package has one of two frequency grids of equal length and equal end points, and one Filter object is re-used over grids. Filter responses are handed over as float arrays, integer arrays or lists, frequencies in Hz/GHz/THz, central wavelengths in micron/nm/cm. The end-to-end stage uses three filters, one of them so narrow that it holds no node of the first SED grid.',
        'ref': 'DESIGN.md section 6 C06',
        'note': _NOTE + ' Integer frequency lattice in units of c/12um; SED grid nodes even so that bin edges are lattice points.',
        'technique': 'TLA+ spec (exact integrals) + TLC exhaustive theorems; spec->code replay in all storage orders and through filter files; trace validation',
    },
    'C07': {
        'text': 'Package.tla: a package of 3 models (each on one of two SED frequency grids; 6 parameter-table orders x 6 directory-listing / cube orders x 2^3 stored spectral orders x per-file | cube x 1 | 2 apertures) convolved with 2 filters; the algorithm layer is the code\'s '
                '(rows in listing order, order_to_match re-ordering to the table; cube rows in cube order, refused when cube and table orders differ), expected fluxes and squared errors come from RebinOps exactly.  TLC checks RowsLabelledRight, '
                'OrderFollowsTable, CubeRefusesMismatch, CellsDistinct on all 2304 packages.  Replay builds each sampled package for real (SED files via SED.write and as raw FITS per the docs, cube via SEDCube.write), runs convolve_model_dir with both '
                'filters at once, reads every convolved file (row names/order, FILTWAV, apertures, flux and error per aperture to 2e-6) and fits a source with every variant, memmap on and off, requiring agreement between variants; concrete size 3 or 6 models and 2 or 4 apertures (copies / aperture blocks scaled, expected cells by linearity); a third of the packages are convolved in two calls with a fit and a listing in between. Half of the per-file SED files hold nu F_nu in erg/cm2/s (legacy or FITS unit strings) instead of F_nu in mJy. Packages store their aperture radii in AU, pc or cm; three filters.',
        'ref': 'DESIGN.md section 6 C07',
        'note': _NOTE + ' This check also decides the end-to-end half of C06 (flux = sum F R, errors in quadrature).',
        'technique': 'TLA+ spec (order_to_match permutation algebra + exact convolution) + TLC exhaustive; replay through convolve_model_dir on real packages of both formats',
    },
    'C08': {
        'text': 'MC_Planted.tla (on FitKernel): photometry synthesised on the lattice from model mp at (A_V0, scale) or at grid distance i0; TLC checks PlantedRecovered for 3 grids x 2 extinction patterns x every planted model x 4 planted (A_V0, scale) x 3 relative errors x '
                '{aperture-independent, distance grid x 3 planted distances} x {no extra model, a 4th model with zero flux in a fitted band (PlantedFirst, DarkLast: its chi^2 is NaN or >= 1e30 and it is ranked last)}: chi^2 = 0 exactly at the planted parameters, the planted distance is the unique grid minimum, and every other model has chi^2 > 0 whenever the grid is non-degenerate -- '
                'non-degeneracy (no model in another\'s span of reddening + scaling) is computed by the spec.  Replay runs the WHOLE chain on real files: SED package (per-file or cube, random table permutation, storage orders, library or raw writer) with SEDs constant over each '
                'normalised filter\'s support -> convolve_model_dir -> data file -> fit() -> first record of the fit file -> write_parameters first row (model, chi^2, A_V, scale, the model\'s own parameter row). The planted tables of the distance mode depend on the aperture (AP = <<0,1,2>> quarter dex at the three requested radii) and packages store their radii in AU, pc or cm. In the distance mode the three bands are measured in 1, 10 and 0.1 arcsec (AP is per band); radii are stored in AU/pc/cm/kpc; per-file packages mix two SED grids of equal length and end points.',
        'ref': 'DESIGN.md section 6 C08',
        'note': _NOTE + ' Planted A_V0 and scale are multiples of 1.25 mag and 1/8 dex so that the photometry stays on the quarter-dex lattice.',
        'technique': 'TLA+ spec (FitKernel + computed non-degeneracy) + TLC; end-to-end replay of the full pipeline on real packages',
    },
    'C09': {
        'text': 'Post.tla (on FitSession): the algorithm layer is FitInfo.filter_table\'s index arithmetic (subset of a table by the kept names, argsort(argsort(names))); TLC checks for 4 sources x record lengths 0..4 x 8 selectors x all 24 '
                'parameter-file row orders that with a name-sorted table the row attached to fit i is the row of the model named in fit i (RowsFollowRanking) and that without the sort this fails exactly when the file is not already sorted (SortIsNeeded).  '
                'Per (source, record, selector) the spec emits every model\'s chi^2, A_V, scale and parameter row; replay runs write_parameters, extract_parameters, write_parameter_ranges and FitInfo.filter_table on real packages whose parameter file '
                'is in a random row order with padded names and has 1, 2, 3 or 4 numeric columns, with file / object / list input and optional additional-parameter dictionaries, and compares every printed cell by model name (rows in chi^2 order, the n best, n_data, n_fits, min/best/max, zero-fit placeholder). One model carries the additional-parameter value 0 exactly. One model carries an undefined (NaN) additional value, in a quarter of the cases the best-fitting one.',
        'ref': 'DESIGN.md section 6 C09',
        'note': _NOTE + ' Printed precision (4 significant digits); exact chi^2 ties at the cut / at rank 1 relax the min/max / best comparison of non-chi^2 columns.',
        'technique': 'TLA+ spec (permutation algebra of filter_table on FitSession/FitKernel) + TLC exhaustive; replay through the three listing functions',
    },
    'C10': {
        'text': 'FitSession.tla is the main machine: the data file written line by line, fit() as the code\'s loop (ReadLine -> skip | FitKeep -> AppendRec, a line with < 3 columns ends the input), '
                'reading the file back, post-processing calls (3 functions x file | object | list input x selectors) and filter_output; fits come from FitKernel, selection from Select.  TLC checks '
                'FileFaithful (one record per eligible line before the first short line, in order, = Keep(Fit(src), sel), predicted fluxes iff requested), FileGrowsOnly, PostPure and termination of the loop '
                'exhaustively (pool of 6 sources incl. two with a singular regression (all-NaN fits), n_data_min 0..3, 4 models, files of <= 3 lines, all argument combinations, <= 2 later calls).  TLC -simulate behaviours (files of <= 6 lines, <= 3 later calls) carrying the expected file '
                'and the expected listing of every later call are replayed through sedfitter.fit, FitInfoFile, write_parameters, write_parameter_ranges, extract_parameters: records compared NaN-aware with '
                'Fitter.fit+keep, metadata compared (filters, apertures, law tabulated in micron/nm/cm/Angstrom with units required equal), and after EVERY call all in-memory results and the file bytes re-projected.  Recorded random sessions (random worlds, <= 12 lines, <= 4 calls) are validated by Trace_FitSession '
                'whose unlogged loop steps are composed silently. An off-lattice stage compares, for 200 data files with zero / negative / NaN / placeholder values, the file with the object interface line by line. Fits of sources whose regression is singular are unspecified and only compared with the object interface.',
        'ref': 'DESIGN.md section 6 C10',
        'note': _NOTE + ' Runs that write no record are outside the property.  Parameter values inside listings are C09\'s subject; C10 compares names, n_data, n_fits, row counts.',
        'technique': 'TLA+ state machine + TLC (safety, action properties, liveness); -simulate behaviours replayed through the real pipeline; trace validation with silent steps',
    },
    'C12': {
        'text': 'SpectralStore.tla models SED and cube objects and files as layouts of cell tokens <<model, aperture, wavelength rank>> along a spectral axis of ranks; writers (SED.write sorts by frequency, a cube is stored as given), '
                'readers (reverse everything together when the requested order differs) and get_sed are permutations.  TLC checks on EVERY history of 5 operations (create asc|desc x SED|cube x with/without uncertainties, write, read nu|wav, get_sed) '
                'that no cell is ever separated from its wavelength/aperture/model (ReadBack, ModelIdentity), that the axis is monotone and that the other order only reverses.  Every history is replayed on real files with per-cell distinct values, '
                'random concrete sizes (1-6 models with deliberately unsorted names, none/1-5 apertures, 2-40 wavelengths), flux unit in {mJy, Jy, erg/cm2/s, erg/s}, memmap on/off; plus ConvolvedFluxes.write/read round trips. Convolved-flux tables hold apertures in AU/pc/kpc and the error column in the flux unit or its twin.',
        'ref': 'DESIGN.md section 6 C12',
        'note': _NOTE + ' The spec decides which cell goes where; value fidelity (dtype, the nu*F_nu round trip, 1e-9) is enforced by the harness on the replayed cells only.',
        'technique': 'TLA+ spec of layouts/permutations + TLC exhaustive over all histories; every history replayed on real FITS files',
    },
    'C15': {
        'text': 'Units.tla is the exponent algebra of convert_flux (F = nu F_nu, L = F d^2, powers of ten): TLC checks RoundTrip, PathIndependent, FamilyRelations and ChainIsDirect for all 5x5 pairs and 5x5x5 triples of '
                '{mJy, Jy, erg/cm2/s, W/m2, erg/s}.  Every pair and triple is replayed through SED.write -> SED.read(unit_flux=...) -> write -> read with 1-5 apertures, per-cell frequencies and distances that are powers of ten '
                '(so the expected value is exact), and an unsupported unit (K) must be refused. Half of the files whose cells fit the 4-byte range in both intermediate forms are rewritten with FITS E (single precision) columns before being read. A third of the source SEDs carry the error in the twin unit of the flux column; a quarter have one cell with flux exactly 0.',
        'ref': 'DESIGN.md section 6 C15',
        'note': _NOTE + ' The family fits this property least (DESIGN.md 9): the spec is an additive group and nearly all assurance is the exhaustive replay; astropy unit arithmetic is trusted.',
        'technique': 'TLA+ exponent-algebra spec + TLC; exhaustive replay of all unit pairs/triples through real SED files',
    },
    'C13': {
        'text': 'ApInterpOps.tla gives aperture interpolation of one row exactly (PwLin: refuse below, clamp above, linear between, single aperture repeated); ApInterp.tla builds every table '
                'over radii subsets of {1,2,4,8,16} AU (1..3 knots quick, 1..4 thorough), 2 rows, values in {0,1,3} (0..3) and TLC checks ExactAtKnots, LinearBetween, ClampedAbove, RefusedBelow, '
                'SingleRepeats and that one too-small request refuses the call while others are unaffected, for 15 requests from below to above the table.  Every sampled table is replayed into '
                'ConvolvedFluxes.interpolate (table and requests in AU/pc/cm, flux and error rows), SED.interpolate (bare numbers in AU and quantities) and SED.interpolate_variable (bare numbers in AU, table in AU/pc/cm); a request ON a tabulated radius is derived from the stored value of the table converted to the unit of the request; '
                'recorded random tables (1-8 knots, 1-6 rows) are validated by Trace_ApInterp. Every request is also issued in a shuffled order. Tables and requests also in kpc and Mpc; the error column of half of the tables is held in Jy.',
        'ref': 'DESIGN.md section 6 C13',
        'note': _NOTE + ' No refusal is admitted at a tabulated radius (requests on the table are derived from the table); the plotting variant may use 0.999 x largest radius at and above the table end.',
        'technique': 'TLA+ spec (exact piecewise-linear functions) + TLC exhaustive; spec->code replay into three entry points; trace validation',
    },
    'C14': {
        'text': 'ExtinctionLaw.tla defines k(lambda) = -2/5 chi(lambda)/chi(V) exactly with zero outside the table; Extinction.tla builds every table of 2..5 (thorough 6) nodes over a 6-wavelength lattice '
                '(V on a node or between nodes), opacities 1..4, then all sequences of two representation changes (pickle, table, text file, text file with column selection, unit changes, rescaling).  TLC checks '
                'ExactAtV, ZeroOutside, ScaleInvariant, AtNodes, NonPositive, TableNeverChanges.  Sampled behaviours are replayed into Extinction.get_av (queries on nodes / between / outside / at the ends, in um/nm/cm/m, '
                'as one vector, as 1-element arrays and as true 0-d Quantities) to 1e-12; recorded random tables of 2..60 (thorough 200) rows with random conversions and queries are validated by Trace_Extinction. Unit changes also to m, km and pc.',
        'ref': 'DESIGN.md section 6 C14',
        'note': _NOTE + ' Boundary: a query exactly on the first/last node that went through a unit conversion may fall 1 ulp outside (0).',
        'technique': 'TLA+ spec (exact rational law) + TLC exhaustive; spec->code replay; trace validation',
    },
    'C16': {
        'text': 'Mono.tla is the implementation-shaped loop of convolve_model_dir_monochromatic: window -> index range by counting wavelengths below each bound on the reversed array, then chunks jmin..min(jmin+c-1, jhi) until jmin > jhi.  '
                'TLC checks for every n_wav 2..5 (thorough 2..9), every chunk size 1..n_wav and every window with ends on or between wavelengths (single-wavelength, empty and unbounded windows included) that exactly the in-range wavelengths are '
                'emitted (a bound equal to a wavelength left open), each once, independently of the chunk size, and that the loop terminates (liveness under weak fairness).  EVERY behaviour is replayed on real per-file packages '
                '(1-5 models, 1-3 apertures, SEDs stored in either order, max_ram chosen to hit the chunk size): set of files, returned table, and every (model, aperture) cell, row order, FILTWAV and apertures of every file; and the nearest-wavelength '
                'slice on real cube packages through Fitter with wavelength filters (geometric wavelength grid; requests just above a wavelength, just above the harmonic mean of two neighbours, just below / on / just above their arithmetic mean, below the first and above the last; memmap on/off). Windows are given in micron, nm, Angstrom or mm.',
        'ref': 'DESIGN.md section 6 C16',
        'note': _NOTE + ' Chunk steps are internal (silent); only the call and its result are observed.',
        'technique': 'TLA+ spec of the chunk loop + TLC (safety, action property, liveness) exhaustive; every behaviour replayed on real packages',
    },
    'C17': {
        'text': 'Plot.tla: the collection of curves plot() returns -- per display mode the apertures shown (interp: each filter\'s own; largest; smallest+largest; all distinct filter apertures in increasing order), drawn for the selected fits n..1 so that the best fit is last; '
                'TLC checks CurveCount, BestLast, EveryFitShown and PassesThroughPred for 1..5 selected fits x 4 modes x 5 filter-aperture patterns x single/multi-aperture package x object/file input.  EVERY configuration is replayed: real cube package, Fitter with wavelength filters '
                'at tabulated wavelengths, Fitter.fit, plot(..., output_dir=None, sed_type=..., select_format=("N", n)) on the object or on a fit file; number and order of the segments of the returned LineCollection, and each curve at each fitted wavelength whose filter aperture it is shown for '
                'against the predicted flux stored with the fit (mJy -> nu F_nu), within 2e-3 dex. Plot worlds use unsorted model names and tabulate the law in micron/nm/cm/Angstrom. A_V ranges from -2 to 4. Curves are matched to (fit, aperture) as a set; only the best fit is required last.',
        'ref': 'DESIGN.md section 6 C17',
        'note': _NOTE + " Nothing is claimed about what reaches the canvas; the unimplemented sed_type 'smallest' is outside the property.",
        'technique': 'TLA+ spec of the curve layout + TLC exhaustive; every configuration replayed through Fitter.fit and plot() on real cube packages',
    },
    'C18': {
        'text': 'filter_output is the Split action of FitSession: a verdict per record from the best chi^2 (chi=) or best chi^2 per fitted point (cpd=) against the threshold, under Select\'s abstract-float rules.  '
                'Thresholds are generated tightly around every pool source\'s own criterion value.  Replay through the real function on file and list inputs (explicit and automatic output names): each source in exactly one '
                'file, input order kept, records NaN-aware equal to the input, verdicts as the spec says; recorded sessions validated by Trace_FitSession. Output names: both automatic, both explicit, or one of each. A split-all stage puts every pool source through chi= and cpd= at thresholds 7 units above and below its own criterion value.',
        'ref': 'DESIGN.md section 6 C18',
        'note': _NOTE + ' Records with zero kept fits are not split (the function indexes the best fit).',
        'technique': 'TLA+ state machine + TLC; behaviours replayed through filter_output; trace validation',
    },
    'C11': {
        'text': 'TLC checks the kernel invariances PermuteBands (all 6 permutations of 3 bands; a transposition, the rotation and the reversal of 4-band sources holding two limits with different confidences; thorough: all 24) and ScaleFlux (4 constants) on every enumerated source.  Replay: all sampled behaviours of a '
                'configuration go through ONE real fitter in seed-shuffled order (history freedom; source pickled before/after), then again on packages with bands and models permuted and all '
                'fluxes scaled by 10^(c/4), compared to the spec rows (scale shifted by -c/8).  Trace_FitKernel validates recorded histories of up to 6 interleaved fits per fitter against '
                'a spec state that contains only the fitter. In half of the cube-format worlds one filter is given by its wavelength instead of its name.',
        'ref': 'DESIGN.md section 6 C11',
        'note': _NOTE,
        'technique': 'TLA+ spec + TLC invariance theorems; spec->code replay on permuted/scaled worlds and shared-fitter histories; trace validation',
    },
    'C19': {
        'text': 'Crash.tla models the fit file as a stream of self-delimiting blocks (3 metadata + records), a crash at any byte, and the reader as a state machine '
                '(open = load 3 blocks; iterate until no byte is left; a partial block fails).  TLC checks PrefixOrError, CleanStop, reader == ReadResult(blocks, cut) and termination for every '
                'size pattern over {2,3,5} bytes, 1..3 (thorough 4) records and every cut.  The self-delimiting assumption is discharged on real bytes: real files (1-4 records, with/without predicted '
                'fluxes, n_fits 0..n_models) are cut at EVERY offset, read with FitInfoFile, and the outcome (opened, records yielded, each compared NaN-aware with the written one, clean stop or error) '
                'is validated by Trace_Crash against the real block sizes. Two more files hold a first record of 2 500 / 12 000 fits (thorough: up to 40 000) and are cut at ~300 spread offsets and at every pickle boundary; 40% of the records have exactly the byte size of their predecessor. Header and record sizes are measured from file sizes alone (no assumption on how the metadata is stored).',
        'ref': 'DESIGN.md section 6 C19',
        'note': _NOTE + ' To the letter of C19 an early failure is admitted; a record not wholly before the cut, a differing record, or opening without complete metadata is not.',
        'technique': 'TLA+ spec of writer/crash/reader + TLC (safety + liveness); exhaustive truncation of real files validated as traces',
    },
    'C20': {
        'text': 'SourceLine.tla gives from_ascii as its steps (column arithmetic, int/float conversion, setter cross-checks) over abstract tokens and, separately, the documented layout; '
                'TLC checks on every token-class sequence of length 0..9 (thorough 0..12) over {flag int, other int, non-integer number, non-number} that a line is parsed by the layout or rejected, '
                'that fewer than 3 columns ends the input, and that Format/Parse round-trips.  A seed-chosen 1/5 of those lines are rendered as text (two renderings each) and replayed through '
                'Source.from_ascii with every parsed field compared, then to_ascii/from_ascii (printed precision), dict and pickle round trips.  Recorded data files (n <= 12 bands, one corruption per line, '
                'short lines ending the input) are validated by Trace_SourceLine. Names include characters that mean something elsewhere (#, %, :, +, /, quotes, braces).',
        'ref': 'DESIGN.md section 6 C20',
        'note': _NOTE + ' Decimal formatting precision is compared by the harness, not by TLC.',
        'technique': 'TLA+ spec over token classes + TLC exhaustive; spec->code replay of rendered lines; trace validation of recorded files',
    },
    'C05': {
        'text': 'Select.tla states keep() over abstract floats (Fin/Big/Inf/NaN with IEEE rules).  TLC checks exhaustively, for every ranked '
                'chi^2 vector of length 0..5 (thorough 0..6) over an 8-value alphabet with ties, infinity and NaN, n_data 0..3, 44 selectors '
                'and all histories of two keep calls, that count-then-slice keeps exactly the promised fits, as a prefix, idempotently and '
                'independently of a looser earlier cut.  Every enumerated (vector, selector) and sampled (thorough: all) selector pairs are '
                'replayed on real FitInfo objects with the whole projected state compared; random longer histories (length <= 40, <= 4 keeps) '
                'recorded from the code are validated by Trace_Select. Flag-4 points carry log10 fluxes <= 0; (E|F, n_data = 0) is excluded: dividing by zero fitted points is outside the property.',
        'ref': 'DESIGN.md section 6 C05',
        'note': _NOTE + ' Thresholds exactly equal to an attained value admit both counts (excluded by the property).',
        'technique': 'TLA+ spec + TLC exhaustive model checking; spec->code behaviour replay; code->spec trace validation',
    },
}
