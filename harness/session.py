"""C10 / C18 -- fit() runs, fit output files, post-processing purity, filter_output.

spec/FitSession.tla (the main machine, built on FitKernel + Select), MC_FitSession (exhaustive),
Gen_FitSession (-simulate behaviours carrying the expected file and the expected output of every
later call) replayed through sedfitter.fit / FitInfoFile / write_parameters /
write_parameter_ranges / extract_parameters / filter_output, and Trace_FitSession for recorded
random sessions.
"""
import hashlib
import os
import random
import shutil
import tempfile

import numpy as np

from .common import model_check, run_tlc, validate_traces, MachineryError, pmap, Collector
from . import fitworld as fw
from .c19 import same_info

FOUR = ['m_h', 'm_c', 'm_a', 'm_f', 'm_b', 'm_d']


def conc_thr(v, unit):
    k, a = v['k'], v['v']
    if k == 'fin':
        return a / float(unit)
    if k == 'big':
        return a * 1e30
    if k == 'bigh':
        return (a + 0.5) * 1e30
    if k == 'inf':
        return np.inf
    raise ValueError(k)


def conc_sel(sel, unit):
    if sel['f'] == 'A':
        return ('A', 0)
    if sel['f'] == 'N':
        return ('N', sel['v'])
    return (sel['f'], conc_thr(sel['v'], unit))


class SessionWorld(object):
    """a real per-file package (with parameter table) for a pool/grid/K/U of FitSession"""

    def __init__(self, root, hdr, table_perm=None):
        from astropy.table import Table
        self.dir = tempfile.mkdtemp(dir=root)
        self.hdr = hdr
        self.nm = len(hdr['grid'])
        self.nb = len(hdr['K'])
        self.names = FOUR[:self.nm]
        self.filts = ['f%d' % j for j in range(self.nb)]
        self.wavs = fw.band_wavelengths(self.nb)
        self.pkg = os.path.join(self.dir, 'pkg')
        os.mkdir(self.pkg)
        fw.build_indep_package(self.pkg, self.names, hdr['grid'], self.filts, self.wavs)
        import astropy.units as _u
        lu = [(None, None), (_u.nm, None), (_u.cm, _u.m ** 2 / _u.kg), (_u.angstrom, None)][(sum(hdr['K']) + len(hdr['pool'])) % 4]
        self.law = fw.make_extinction(hdr['K'], self.wavs, wav_unit=lu[0], chi_unit=lu[1])     # the law may be tabulated in any units
        t = Table()
        perm = table_perm or list(range(self.nm))[::-1]
        t['MODEL_NAME'] = np.array([self.names[i] for i in perm], dtype='S30')
        t['par1'] = np.array([10.0 + i for i in perm])
        t['par2'] = np.array([100.0 * (i + 1) for i in perm])
        t.write(os.path.join(self.pkg, 'parameters.fits'))
        self.av = hdr['u'] / 4.0
        self._fitter = None
        self.n = 0

    def path(self, stem):
        self.n += 1
        return os.path.join(self.dir, '%s_%04d' % (stem, self.n))

    def fit_args(self):
        from astropy import units as u
        return dict(filter_names=list(self.filts), apertures=np.array([3.0] * self.nb) * u.arcsec, model_dir=self.pkg,
                    extinction_law=self.law, av_range=(self.av, self.av), distance_range=np.array([1.0, 2.0]) * u.kpc)

    def fitter(self):
        if self._fitter is None:
            self._fitter = fw.make_fitter(self.pkg, self.filts, self.law, self.hdr['u'], self.hdr['u'])
        return self._fitter

    def src_name(self, sid, line_no):
        return 'src%d_line%d' % (sid, line_no)

    def write_data(self, lines, rng):
        """data file in the fitter data format, values at full precision"""
        p = self.path('data')
        with open(p, 'w') as f:
            for i, sid in enumerate(lines):
                if sid == 0:
                    f.write(rng.choice(['\n', 'only two\n', '   \n', 'x\n']))
                    continue
                s = fw.make_source(self.hdr['pool'][sid - 1], name=self.src_name(sid, i))
                cols = [s.name, repr(float(s.x)), repr(float(s.y))] + [str(int(v)) for v in s.valid]
                for a, b in zip(s.flux, s.error):
                    cols += [repr(float(a)), repr(float(b))]
                f.write(' '.join(cols) + '\n')
        return p

    def object_result(self, sid, line_no, sel, conv, unit):
        s = fw.make_source(self.hdr['pool'][sid - 1], name=self.src_name(sid, line_no))
        info = self.fitter().fit(s)
        if not conv:
            info.model_fluxes = None
        info.keep(conc_sel(sel, unit))
        return info

    def close(self):
        shutil.rmtree(self.dir, ignore_errors=True)


def file_digest(p):
    with open(p, 'rb') as f:
        return hashlib.sha1(f.read()).hexdigest()


def snapshot(objs):
    return [(fw.project_info(o), o.source.__getstate__()['name'], int(o.source.n_data)) for o in objs]


def snap_equal(a, b):
    if len(a) != len(b):
        return False
    for (pa, na, da), (pb, nb_, db) in zip(a, b):
        if na != nb_ or da != db or pa['names'] != pb['names'] or pa['ids'] != pb['ids']:
            return False
        for k in ('av', 'sc', 'chi2'):
            if not np.array_equal(np.array(pa[k]), np.array(pb[k]), equal_nan=True):
                return False
        if (pa['pred'] is None) != (pb['pred'] is None):
            return False
    return True


def sid_of(name):
    return int(name[3:name.index('_')])


# ---- parsing the text outputs --------------------------------------------------------
def parse_write_parameters(p, known):
    out = []
    cur = None
    for ln in open(p).read().splitlines()[3:]:
        t = ln.split()
        if len(t) == 3 and t[0] in known:
            cur = {'name': t[0], 'nd': int(t[1]), 'n': int(t[2]), 'rows': 0, 'models': []}
            out.append(cur)
        elif t and cur is not None:
            cur['rows'] += 1
            cur['models'].append(t[1])
    return out


def parse_ranges(p, known):
    out = []
    for ln in open(p).read().splitlines()[3:]:
        t = ln.split()
        if t and t[0] in known:
            out.append({'name': t[0], 'nd': int(t[1]), 'n': int(t[2]), 'rows': int(t[2]), 'models': None})
    return out


def run_post(w, kind, inp, csel, names_in_order):
    """call the real post-processing function; returns list of per-source dicts (name, nd, n, rows)"""
    from sedfitter import write_parameters, write_parameter_ranges, extract_parameters
    known = set(names_in_order)
    with fw.quiet():
        if kind == 'write_parameters':
            p = w.path('wp')
            write_parameters(inp, p, select_format=csel)
            return parse_write_parameters(p, known)
        if kind == 'write_parameter_ranges':
            p = w.path('wr')
            write_parameter_ranges(inp, p, select_format=csel)
            return parse_ranges(p, known)
        if kind == 'extract_parameters':
            d = w.path('ex')
            os.mkdir(d)
            extract_parameters(input=inp, output_prefix=d + '/', output_suffix='.txt', select_format=csel)
            out = []
            for nm in names_in_order:
                fp = os.path.join(d, nm + '.txt')
                if not os.path.exists(fp):
                    continue
                rows = [l for l in open(fp).read().splitlines()[1:] if l.strip()]
                out.append({'name': nm, 'nd': None, 'n': len(rows), 'rows': len(rows), 'models': [r.split()[3] for r in rows]})
            return out
    raise ValueError(kind)


# ---- replay of one behaviour ------------------------------------------------------------
def replay_behaviour(col, w, b, hdr, rng, pid):
    from sedfitter import fit, filter_output
    from sedfitter.fit_info import FitInfoFile
    unit = hdr['unit']
    run = b['run']
    exp_file = b['file']
    data = w.write_data(run['lines'], rng)
    out = w.path('fit')
    ctx_desc = {'run': run, 'expected_file': exp_file, 'hist': b['hist'], 'world': {k: hdr[k] for k in ('pool', 'grid', 'K', 'u', 'unit')}}
    try:
        with fw.quiet():
            fit(data, n_data_min=run['nmin'], output=out, output_format=conc_sel(run['sel'], unit),
                output_convolved=run['conv'], **dict((k if k != 'filter_names' else 'filter_names', v) for k, v in w.fit_args().items()))
    except Exception as e:
        col.violation('%s:fit_raised:%s' % (pid, type(e).__name__), 'sedfitter.fit raised %r' % (e,), ctx_desc)
        return
    col.replayed += 1
    # ---- the file: one faithful record per eligible line
    try:
        fin = FitInfoFile(out, 'r')
        recs = list(fin)
        meta = fin.meta
        fin.close()
    except Exception as e:
        col.violation('%s:read_raised:%s' % (pid, type(e).__name__), 'reading the fit output raised %r' % (e,), ctx_desc)
        return
    elig = [(i, sid) for i, sid in enumerate(run['lines'])]
    # expected records carry sid and n; recover their line numbers in order
    line_of = []
    stop = False
    for i, sid in enumerate(run['lines']):
        if sid == 0:
            break
        if hdr['nd'][sid - 1] >= run['nmin']:
            line_of.append(i)
    # a source whose regression is singular (outside C01) has UNSPECIFIED fits: the spec models what the code does today (all NaN),
    # C10 only demands that the file agrees with the object interface -- so the number of fits kept is not compared for it here
    sing = hdr.get('sing', [False] * len(hdr['pool']))
    got = [(r.source.name, '*' if sing[sid_of(r.source.name) - 1] else int(r.n_fits), r.model_fluxes is not None) for r in recs]
    want = [(w.src_name(e['sid'], line_of[k]) if k < len(line_of) else '?', '*' if sing[e['sid'] - 1] else e['n'], e['pred']) for k, e in enumerate(exp_file)]
    if got != want:
        col.violation('%s:file_records' % pid, 'fit output holds %r, spec expects %r (lines %r, n_data_min %d, selector %r, convolved %r)'
                      % (got, want, run['lines'], run['nmin'], conc_sel(run['sel'], unit), run['conv']), dict(ctx_desc, observed=got))
        return
    for k, r in enumerate(recs):
        ref = w.object_result(exp_file[k]['sid'], line_of[k], run['sel'], run['conv'], unit)
        if not same_info(r, ref):
            col.violation('%s:record_differs_from_object_interface' % pid,
                          'record %d (%s) differs from Fitter.fit + keep: file %r vs object %r' % (k, r.source.name, fw.project_info(r), fw.project_info(ref)),
                          dict(ctx_desc, record=k))
            return
        # rows follow the spec ranking (by name, tie order free): names are a permutation prefix
    ok_meta = (meta.model_dir == w.pkg and [f.get('name') for f in meta.filters] == w.filts
               and [float(f['aperture_arcsec']) for f in meta.filters] == [3.0] * w.nb
               and np.allclose([f['wav'].to('micron').value for f in meta.filters], w.wavs)
               and meta.extinction_law.wav.unit == w.law.wav.unit and meta.extinction_law.chi.unit == w.law.chi.unit
               and np.array_equal(meta.extinction_law.wav.value, w.law.wav.value)
               and np.array_equal(meta.extinction_law.chi.value, w.law.chi.value))
    if not ok_meta:
        col.violation('%s:meta' % pid, 'metadata read back differs from what fit() was given', ctx_desc)
        return
    # ---- later calls
    objs = None
    snap0 = None
    digest0 = file_digest(out)
    names_all = [r.source.name for r in recs]
    for step_no, st in enumerate(b['hist']):
        if st['act'] == 'Load':
            fin = FitInfoFile(out, 'r')
            objs = list(fin)
            fin.close()
            snap0 = snapshot(objs)
            if len(objs) != st['n']:
                col.violation('%s:load_count' % pid, 'file yields %d records, spec %d' % (len(objs), st['n']), ctx_desc)
                return
            continue
        form = st['form']
        inp = out if form == 'path' else (objs[0] if form == 'obj' else objs)
        in_names = names_all if form != 'obj' else names_all[:1]
        if st['act'] == 'Post' and pid == 'C18':
            continue          # the spec says Post changes nothing: C18 replays only the splits
        if st['act'] == 'Post':
            csel = conc_sel(st['sel'], unit)
            try:
                res = run_post(w, st['kind'], inp, csel, in_names)
            except Exception as e:
                col.violation('%s:post_raised:%s:%s:%s' % (pid, st['kind'], form, type(e).__name__),
                              '%s(%s input, select_format=%r) raised %r' % (st['kind'], form, csel, e), dict(ctx_desc, step=step_no))
                return
            col.replayed += 1
            expo = st['out']
            bad = None
            if len(res) != len(expo) and not (st['kind'] == 'extract_parameters'):
                bad = 'lists %d sources, spec %d' % (len(res), len(expo))
            else:
                for r_, e_ in zip(res, expo):
                    if sid_of(r_['name']) != e_['sid']:
                        bad = 'source order: %s where spec has pool source %d' % (r_['name'], e_['sid'])
                    elif r_['nd'] is not None and r_['nd'] != e_['nd']:
                        bad = '%s: n_data %d, spec %d' % (r_['name'], r_['nd'], e_['nd'])
                    elif sing[e_['sid'] - 1]:
                        if r_['rows'] != r_['n']:
                            bad = '%s: n_fits %d but %d rows listed' % (r_['name'], r_['n'], r_['rows'])
                    elif not (e_['lo'] <= r_['n'] <= e_['hi']) or r_['rows'] != r_['n']:
                        bad = '%s: n_fits %d (rows listed %d), spec admits %d..%d' % (r_['name'], r_['n'], r_['rows'], e_['lo'], e_['hi'])
                    if bad:
                        break
            if bad:
                prev = [(h['kind'], h['form'], h['sel']) for h in b['hist'][:step_no] if h['act'] == 'Post']
                col.violation('%s:post_output:%s' % (pid, form),
                              '%s(%s input, %r) after earlier calls %r: %s' % (st['kind'], form, csel, prev, bad),
                              dict(ctx_desc, step=step_no, observed=res))
                return
        elif st['act'] == 'Split':
            if any(int(r_.n_fits) == 0 for r_ in recs):
                continue          # a record without fits has no best chi^2: outside C18 (the spec only splits inputs whose records have fits)
            thr = conc_thr(st['thr'], unit)
            # output names: both automatic (<input>_good / <input>_bad, file input only), both explicit, or one of each
            naming = rng.choice(['auto', 'explicit', 'good_explicit', 'bad_explicit']) if form == 'path' else 'explicit'
            g = w.path('good') if naming in ('explicit', 'good_explicit') else out + '_good'
            bd = w.path('bad') if naming in ('explicit', 'bad_explicit') else out + '_bad'
            names = {}
            if naming in ('explicit', 'good_explicit'):
                names['output_good'] = g
            if naming in ('explicit', 'bad_explicit'):
                names['output_bad'] = bd
            for p_ in (g, bd):
                if os.path.exists(p_):
                    os.remove(p_)
            try:
                with fw.quiet():
                    kw = {'chi': thr} if st['crit'] == 'chi' else {'cpd': thr}
                    if rng.random() < 0.5:
                        # the output names were already used by an earlier call with another threshold (everything
                        # good, or everything bad): nothing of that call may survive in the new outputs
                        kw0 = dict(names, chi=rng.choice([1e-12, 1e12]))
                        filter_output(inp, **kw0)
                    filter_output(inp, **dict(names, **kw))
            except Exception as e:
                col.violation('%s:split_raised:%s:%s' % (pid, form, type(e).__name__), 'filter_output(%s input) raised %r' % (form, e),
                              dict(ctx_desc, step=step_no))
                return
            col.replayed += 1
            bad = check_split(g, bd, recs, ['?' if sing[sid_of(r_.source.name) - 1] else v_ for r_, v_ in zip(recs, st['verdict'])])
            if bad:
                col.violation('%s:split' % pid, 'filter_output(%s=%r, %s input): %s' % (st['crit'], thr, form, bad), dict(ctx_desc, step=step_no))
                return
        # purity: the results that were passed in, and the file, are unchanged
        if objs is not None and not snap_equal(snapshot(objs), snap0):
            col.violation('%s:results_modified:%s:%s' % (pid, st['act'], form),
                          '%s with %s input changed the in-memory results it was given (n_fits now %r, before %r)'
                          % (st.get('kind', 'filter_output'), form, [len(o.chi2) for o in objs], [len(x[0]['chi2']) for x in snap0]),
                          dict(ctx_desc, step=step_no))
            return
        if file_digest(out) != digest0:
            col.violation('%s:file_modified' % pid, 'a post-processing call changed the fit output file', dict(ctx_desc, step=step_no))
            return


def check_split(g, bd, recs, verdict):
    from sedfitter.fit_info import FitInfoFile

    def read(p):
        if not os.path.exists(p) or os.path.getsize(p) == 0:
            return []
        f = FitInfoFile(p, 'r')
        r = list(f)
        f.close()
        return r
    good, badr = read(g), read(bd)
    gn, bn = [r.source.name for r in good], [r.source.name for r in badr]
    names = [r.source.name for r in recs]
    if sorted(gn + bn) != sorted(names):
        return 'sources %r split into %r + %r (not each exactly once)' % (names, gn, bn)
    if [n for n in names if n in gn] != gn or [n for n in names if n in bn] != bn:
        return 'input order not preserved: %r -> %r / %r' % (names, gn, bn)
    for r in recs:
        o = [x for x in good + badr if x.source.name == r.source.name][0]
        if not same_info(o, r):
            return 'record of %s changed' % r.source.name
    for r, v in zip(recs, verdict):
        where = 'good' if r.source.name in gn else 'bad'
        if v == 'T' and where != 'good':
            return '%s below the threshold but written to the bad file' % r.source.name
        if v == 'F' and where != 'bad':
            return '%s not below the threshold but written to the good file' % r.source.name
    return None


def replay_chunk(behs, hdr, root, seed, pid):
    col = Collector()
    rng = random.Random(seed)
    w = SessionWorld(root, hdr)
    try:
        for b in behs:
            replay_behaviour(col, w, b, hdr, rng, pid)
            if len(col.viol) > 10:
                break
    finally:
        w.close()
    return col


def gen_behaviours(ctx, num_per_worker, workers=8, want_split=False):
    res = run_tlc(ctx, 'MC_FitSession', 'Gen_FitSession.cfg', workers=workers, timeout=600,
                  simulate='num=%d' % num_per_worker, extra=['-depth', '80'], coverage=False)
    hdr = None
    behs = []
    for v in res['emitted']:
        if 'pool' in v:
            hdr = v
        else:
            behs.append(v)
    if hdr is None or not behs:
        raise MachineryError('no behaviours from Gen_FitSession')
    return hdr, behs


def select_behaviours(behs, pid, limit, seed):
    """behaviours with at least one record (C10 says nothing about empty runs); distinct; for C18
    those containing a Split, for C10 those containing Post calls are preferred"""
    seen = set()
    out = []
    for b in behs:
        if not b['file']:
            continue
        key = repr(b)
        if key in seen:
            continue
        seen.add(key)
        has_split = any(h['act'] == 'Split' for h in b['hist'])
        has_post = any(h['act'] == 'Post' for h in b['hist'])
        if pid == 'C18' and not has_split:
            continue
        if pid == 'C10' and not (has_post or len(b['hist']) <= 1):
            pass
        out.append(b)
    rng = random.Random(seed)
    rng.shuffle(out)
    out.sort(key=lambda b: -len(b['hist']))
    return out[:limit]


def run_common(ctx, pid):
    q = not ctx.thorough
    model_check(ctx, 'MC_FitSession', 'MC_FitSession.cfg', timeout=1800, coverage=False)
    ctx.notes['mc_constants'] = ('pool of 6 lattice sources (n_data 3,2,2,1,0,3; one with a certain upper limit), 4 models (one duplicated), '
                                 'data files of 1..3 lines incl. short lines, n_data_min 0..3, 4 output selectors, convolved yes/no, '
                                 '<= 2 later calls out of 3 kinds x 3 input forms x 5 selectors + filter_output x 2 forms x 2 criteria x 3 thresholds; VIEW hides the call history')
    hdr, behs = gen_behaviours(ctx, 400 if q else 4000)
    ctx.notes['behaviours_simulated'] = len(behs)
    chosen = select_behaviours(behs, pid, 160 if q else 1600, ctx.seed)
    ctx.notes['behaviours_replayed_distinct'] = len(chosen)
    if not chosen:
        raise MachineryError('no usable behaviour')
    ctx.sample({'behaviour': chosen[0]})
    root = ctx.mkdtemp('sw')
    for col in pmap(lambda c: replay_chunk(c, hdr, root, ctx.seed, pid), chosen, chunks_per_proc=1):
        col.merge_into(ctx)
    return hdr


# ---- recorded sessions (code -> spec) ------------------------------------------------------
def tla_seq(xs):
    return '<<' + ', '.join(str(int(x)) for x in xs) + '>>'


def world_module(hdr):
    pool = ', '.join('[flag |-> %s, Y |-> %s, W |-> %s, P |-> %s]' % (tla_seq(p['flag']), tla_seq(p['Y']), tla_seq(p['W']), tla_seq(p['P']))
                     for p in hdr['pool'])
    grid = ', '.join(tla_seq(m) for m in hdr['grid'])
    return ('---- MODULE TraceWorldDefs ----\nEXTENDS Integers\nTWPool == << %s >>\nTWGrid == << %s >>\nTWK == %s\nTWU == %d\nTWUnit == %d\n====\n'
            % (pool, grid, tla_seq(hdr['K']), hdr['u'], hdr['unit']))


def rand_world_hdr(rng):
    nb = 3
    while True:
        K = [rng.randint(0, 4) for _ in range(nb)]
        if len(set(K)) > 1:
            break
    nm = rng.randint(2, 5)
    grid = [[rng.randint(-8, 8) for _ in range(nb)] for _ in range(nm)]
    if nm > 2 and rng.random() < 0.4:
        grid[-1] = list(grid[0])
    pool = []
    for _ in range(rng.randint(3, 6)):
        flags = [rng.choice([1, 1, 1, 4, 0, 9, 2, 3]) for _ in range(nb)]
        fk = {K[j] for j in range(nb) if flags[j] in (1, 4)}
        if sum(1 for f in flags if f in (1, 4)) >= 2 and len(fk) < 2:
            continue            # singular regression (all fitted bands share one extinction coefficient): outside C01/C10
        pool.append({'flag': flags, 'Y': [rng.randint(-8, 8) for _ in range(nb)], 'W': [rng.choice([1, 4]) for _ in range(nb)],
                     'P': [rng.choice([0, 2, 6, -1]) for _ in range(nb)]})
    if not pool:
        return rand_world_hdr(rng)
    hdr = {'pool': pool, 'grid': grid, 'K': K, 'u': rng.choice([0, 4, 8]), 'unit': 144000}
    hdr['nd'] = [sum(1 for f in p['flag'] if f in (1, 4)) for p in pool]
    return hdr


def rand_abs_sel(rng, nm, unit):
    f = rng.choice('ANNCDEF')
    if f == 'A':
        return {'f': 'A', 'v': 0}
    if f == 'N':
        return {'f': 'N', 'v': rng.randint(0, nm + 1)}
    return {'f': f, 'v': {'k': 'fin', 'v': unit * rng.choice([0, 1, 2, 3, 5, 10, 40]) + 7}}


def record_world(sd, root, n_sessions):
    from sedfitter import fit, filter_output
    from sedfitter.fit_info import FitInfoFile
    rng = random.Random(sd)
    hdr = rand_world_hdr(rng)
    unit = hdr['unit']
    w = SessionWorld(root, hdr, table_perm=rng.sample(range(len(hdr['grid'])), len(hdr['grid'])))
    traces = []
    try:
        for _ in range(n_sessions):
            nl = rng.randint(1, 12)
            lines = [rng.choice([0] + list(range(1, len(hdr['pool']) + 1)) * 3) for _ in range(nl)]
            run = {'lines': lines, 'nmin': rng.choice([2, 2, 3]), 'sel': rand_abs_sel(rng, w.nm, unit), 'conv': rng.random() < 0.5}
            tr = [{'ev': 'Run', 'lines': lines, 'nmin': run['nmin'], 'sel': run['sel'], 'conv': int(run['conv'])}]
            data = w.write_data(lines, rng)
            out = w.path('fit')
            with fw.quiet():
                fit(data, n_data_min=run['nmin'], output=out, output_format=conc_sel(run['sel'], unit), output_convolved=run['conv'], **w.fit_args())
            line_of = []
            for i, sid in enumerate(lines):
                if sid == 0:
                    break
                if hdr['nd'][sid - 1] >= run['nmin']:
                    line_of.append(i)
            if not line_of:
                # no eligible source: C10 claims nothing about what such a run leaves behind (a zero-byte file, a header without
                # records, ...) -- except that it holds no record, which is what the File event states
                nrec = 0
                if os.path.getsize(out) > 0:
                    try:
                        fin = FitInfoFile(out, 'r')
                        nrec = len(list(fin))
                        fin.close()
                    except Exception:
                        nrec = 0
                tr.append({'ev': 'File', 'recs': [{'sid': 1, 'n': 0, 'pred': 0, 'eqobj': 0, 'line': 0}] * nrec, 'meta': 1})
                traces.append(tr)
                continue
            fin = FitInfoFile(out, 'r')
            recs = list(fin)
            meta = fin.meta
            fin.close()
            evrecs = []
            for k, r in enumerate(recs):
                sid = sid_of(r.source.name)
                ln = int(r.source.name.split('line')[1])
                ref = w.object_result(sid, ln, run['sel'], run['conv'], unit)
                evrecs.append({'sid': sid, 'n': int(r.n_fits), 'pred': int(r.model_fluxes is not None), 'eqobj': int(same_info(r, ref)),
                               'line': ln})
            inorder = [e['line'] for e in evrecs] == line_of[:len(evrecs)]
            ok_meta = (meta.model_dir == w.pkg and [f.get('name') for f in meta.filters] == w.filts
                       and meta.extinction_law.wav.unit == w.law.wav.unit and np.array_equal(meta.extinction_law.wav.value, w.law.wav.value)
                       and meta.extinction_law.chi.unit == w.law.chi.unit and np.array_equal(meta.extinction_law.chi.value, w.law.chi.value))
            tr.append({'ev': 'File', 'recs': evrecs if inorder else evrecs[::-1], 'meta': int(ok_meta)})
            fin = FitInfoFile(out, 'r')
            objs = list(fin)
            fin.close()
            snap0 = snapshot(objs)
            tr.append({'ev': 'Load', 'n': len(objs)})
            if not objs:
                traces.append(tr)
                continue
            names_all = [r.source.name for r in recs]
            for _c in range(rng.randint(0, 4)):
                form = rng.choice(['path', 'obj', 'list'])
                inp = out if form == 'path' else (objs[0] if form == 'obj' else objs)
                in_names = names_all if form != 'obj' else names_all[:1]
                if rng.random() < 0.7 or form == 'obj' or any(r.n_fits == 0 for r in recs):
                    kind = rng.choice(['write_parameters', 'write_parameter_ranges', 'extract_parameters'])
                    sel = rand_abs_sel(rng, w.nm, unit)
                    ev = {'ev': 'Post', 'kind': kind, 'form': form, 'sel': sel, 'raised': 0, 'out': [], 'pure': 1}
                    try:
                        res = run_post(w, kind, inp, conc_sel(sel, unit), in_names)
                        ev['out'] = [{'sid': sid_of(r_['name']), 'nd': -1 if r_['nd'] is None else r_['nd'], 'n': r_['n'], 'rows': r_['rows']} for r_ in res]
                    except Exception:
                        ev['raised'] = 1
                else:
                    crit = rng.choice(['chi', 'cpd'])
                    r0 = rng.choice(recs)         # tightly around one record's own criterion value
                    base = float(r0.chi2[0]) / (1.0 if crit == 'chi' else float(r0.source.n_data))
                    thr = {'k': 'fin', 'v': (int(round(base * unit)) + rng.choice([-7, 7])) if (base < 1e4 and rng.random() < 0.7)
                           else unit * rng.choice([0, 1, 2, 5, 20, 100]) + 7}
                    ev = {'ev': 'Split', 'form': form, 'crit': crit, 'thr': thr, 'raised': 0, 'where': [], 'order': 1, 'equal': 1, 'pure': 1}
                    g, bd = w.path('good'), w.path('bad')
                    try:
                        with fw.quiet():
                            filter_output(inp, output_good=g, output_bad=bd, **({'chi': conc_thr(thr, unit)} if crit == 'chi' else {'cpd': conc_thr(thr, unit)}))
                        good = list(FitInfoFile(g, 'r')) if os.path.getsize(g) else []
                        badr = list(FitInfoFile(bd, 'r')) if os.path.getsize(bd) else []
                        gn, bn = [r.source.name for r in good], [r.source.name for r in badr]
                        for r in recs:
                            c = (r.source.name in gn) + (r.source.name in bn)
                            ev['where'].append('good' if (c == 1 and r.source.name in gn) else ('bad' if c == 1 else 'both_or_none'))
                        ev['order'] = int([n for n in names_all if n in gn] == gn and [n for n in names_all if n in bn] == bn)
                        ev['equal'] = int(all(same_info([x for x in good + badr if x.source.name == r.source.name][0], r) for r in recs
                                              if (r.source.name in gn + bn)))
                    except Exception:
                        ev['raised'] = 1
                ev['pure'] = int(snap_equal(snapshot(objs), snap0))
                tr.append(ev)
            traces.append(tr)
    finally:
        w.close()
    return world_module(hdr), traces


def record_and_validate(ctx, pid, n_worlds, n_sessions):
    root = ctx.mkdtemp('tw')
    seeds = [ctx.seed * 1009 + i for i in range(n_worlds)]
    worlds = []
    for part in pmap(lambda c: [record_world(sd, root, n_sessions) for sd in c], seeds, chunks_per_proc=1):
        worlds.extend(part)
    ctx.sample({'trace': worlds[0][1][0], 'world': worlds[0][0]})
    from concurrent.futures import ThreadPoolExecutor

    def job(wt):
        mod, traces = wt
        return validate_traces(ctx, 'Trace_FitSession', 'Trace_FitSession.cfg', traces, extra_files={'TraceWorldDefs.tla': mod})
    with ThreadPoolExecutor(max_workers=8) as ex:
        results = list(ex.map(job, worlds))
    for (mod, traces), rejected in zip(worlds, results):
        for idx, viol in rejected[:5]:
            clause = viol[0][1] if viol else '?'
            ctx.violation('%s:trace:%s' % (pid, clause), 'recorded session rejected by Trace_FitSession: %r' % (viol,),
                          {'world': mod, 'trace': traces[idx], 'viol': viol})


# ---- extension: the FitInfoFile protocol (spec/FileProtocol.tla) ------------------------------
def protocol_chunk(hists, root, seed):
    from sedfitter.fit_info import FitInfoFile
    from .fitkernel import World, names_for
    col = Collector()
    wa = World(root, names_for(2), [[0, 0], [4, -4]], [3, 1], 0, 8)
    wb = World(root, names_for(2), [[0, 0], [4, -4]], [3, 1], 0, 8)
    try:
        src = {'flag': [1, 1], 'Y': [1, 2], 'W': [1, 1], 'P': [0, 0]}
        for hi, hist in enumerate(hists):
            path = os.path.join(wa.dir, 'proto_%d.fitinfo' % hi)
            fh = None
            serial = 0
            for si, st in enumerate(hist):
                op = st['op']
                try:
                    if op == 'open_w':
                        fh = FitInfoFile(path, 'w')
                        got = 'ok'
                    elif op == 'open_r':
                        if not os.path.exists(path):
                            open(path, 'wb').close()
                        try:
                            fh = FitInfoFile(path, 'r')
                            got = 'ok'
                        except Exception:
                            fh = None
                            got = 'error'
                    elif op in ('write_m1', 'write_m2'):
                        serial += 1
                        w = wa if op == 'write_m1' else wb
                        info = w.fit(fw.make_source(src, name='s%d' % serial))
                        try:
                            fh.write(info)
                            got = 'ok'
                        except ValueError:
                            got = 'error'
                    elif op == 'iterate':
                        try:
                            got = [int(r.source.name[1:]) for r in fh]
                        except ValueError:
                            got = 'error'
                    elif op == 'meta':
                        try:
                            md = fh.meta.model_dir
                            got = 1 if md == wa.dir else (2 if md == wb.dir else -1)
                        except ValueError:
                            got = 0
                    elif op == 'close':
                        fh.close()
                        fh = None
                        got = 'ok'
                    else:
                        raise MachineryError('unknown op %r' % op)
                except MachineryError:
                    raise
                except Exception as e:
                    got = 'raised %r' % (e,)
                col.replayed += 1
                if got != st['res']:
                    col.violation('X08:protocol:%s' % op, 'FitInfoFile history %r: step %d (%s) gave %r, spec %r' % ([s_['op'] for s_ in hist], si, op, got, st['res']),
                                  {'history': hist, 'step': si, 'observed': got})
                    break
            if fh is not None:
                try:
                    fh.close()
                except Exception:
                    pass
            if os.path.exists(path):
                os.remove(path)
    finally:
        wa.close()
        wb.close()
    return col


def protocol_replay(ctx):
    res = model_check(ctx, 'FileProtocol', 'MC_FileProtocol.cfg', timeout=600, coverage=False)
    hists = [h_ for h_ in res['emitted'] if isinstance(h_, list)]
    if not hists:
        raise MachineryError('no FileProtocol behaviours')
    ctx.notes['protocol_histories'] = len(hists)
    root = ctx.mkdtemp('proto')
    for col in pmap(lambda c: protocol_chunk(c, root, ctx.seed), hists, chunks_per_proc=1):
        col.merge_into(ctx)


def offlattice_chunk(seeds, root, hdr):
    """FileFaithful with the OBJECT INTERFACE as the oracle for Fit(src), on lines the lattice cannot express: flag-1 points with a
    zero / negative / NaN flux, -999 placeholders, huge and tiny values, any n_data_min and selector.  C10 is a statement about
    every data line, not only about physically sensible ones: the file must hold, in input order, one record per line whose number
    of flag-1/4 points reaches n_data_min, each equal (NaN-aware) to Fitter.fit + keep of the Source that line parses to."""
    from sedfitter import fit
    from sedfitter.fit_info import FitInfoFile
    from sedfitter.source import Source
    col = Collector()
    w = SessionWorld(root, hdr)
    try:
        for sd in seeds:
            rng = random.Random(sd)
            nb = w.nb
            lines = []
            for li in range(rng.randint(1, 8)):
                flags = [rng.choice([0, 1, 1, 1, 2, 3, 4, 9]) for _ in range(nb)]
                vals = []
                for f_ in flags:
                    r = rng.random()
                    if f_ == 4:
                        flux, err = rng.choice([-3.5, -0.25, 0.0, 1.5]), rng.choice([0.1, 0.5])
                    elif f_ in (2, 3):
                        flux, err = rng.choice([0.5, 20.0, 3e3]), rng.choice([0.0, 0.9, 1.0])
                    elif r < 0.25:
                        flux, err = rng.choice([0.0, -1.0, -999.0, float('nan'), 1e-30, 1e30]), rng.choice([0.0, 1.0, -999.0])
                    else:
                        flux = 10.0 ** rng.uniform(-2, 4)
                        err = flux * rng.choice([0.05, 0.3])
                    vals += [repr(float(flux)), repr(float(err))]
                lines.append(' '.join(['off%d_%d' % (sd % 1000, li), '1.0', '-2.0'] + [str(f_) for f_ in flags] + vals))
            data = w.path('offdata')
            with open(data, 'w') as fh:
                fh.write('\n'.join(lines) + '\n')
            nmin = rng.randint(0, 3)
            sel = rng.choice([('A', 0), ('N', 2), ('N', 1), ('F', 3.0), ('C', 50.0)])
            conv = rng.random() < 0.5
            out = w.path('offfit')
            want = []
            for ln in lines:
                s = Source.from_ascii(ln)
                if s.n_data >= nmin:
                    ref = w.fitter().fit(s)
                    if not conv:
                        ref.model_fluxes = None
                    ref.keep(sel)
                    want.append(ref)
            desc = {'lines': lines, 'n_data_min': nmin, 'selector': list(sel), 'output_convolved': conv}
            try:
                with fw.quiet():
                    fit(data, n_data_min=nmin, output=out, output_format=sel, output_convolved=conv, **w.fit_args())
                got = list(FitInfoFile(out, 'r')) if want else []
            except Exception as e:
                if want:
                    col.violation('C10:offlattice:raised:%s' % type(e).__name__, 'fit() / reading its output raised %r' % (e,), desc)
                continue
            col.replayed += 1
            if [g.source.name for g in got] != [r_.source.name for r_ in want]:
                col.violation('C10:offlattice:records', 'records for %r, eligible lines are %r' % ([g.source.name for g in got], [r_.source.name for r_ in want]), desc)
            else:
                for g, r_ in zip(got, want):
                    if not same_info(g, r_):
                        col.violation('C10:offlattice:record_differs_from_object_interface', 'record of %s: file %r vs object %r' % (g.source.name, fw.project_info(g), fw.project_info(r_)), desc)
                        break
    finally:
        w.close()
    return col


def run_C10(ctx):
    hdr = run_common(ctx, 'C10')
    root = ctx.mkdtemp('off')
    seeds = [ctx.seed * 7001 + i for i in range(200 if not ctx.thorough else 2000)]
    for col in pmap(lambda c: offlattice_chunk(c, root, hdr), seeds):
        col.merge_into(ctx)
    record_and_validate(ctx, 'C10', 8 if not ctx.thorough else 48, 8 if not ctx.thorough else 20)
    ctx.assumptions += ['runs that write no record are outside the property and not replayed',
                        'thresholds are chosen off every attained chi^2 (UnitOK assumption checked by TLC)']


def split_all_stage(ctx, hdr):
    """every pool source with a finite best chi^2, in one input, split by chi= and by cpd= at thresholds 7 units above and below EACH
    source's own criterion value (spec: Good iff best / divisor < threshold, divisor 1 or n_data): any distortion of the criterion or
    of the divisor flips the verdict of that source"""
    from fractions import Fraction
    from sedfitter.filter_output import filter_output
    from sedfitter.fit_info import FitInfoFile
    root = ctx.mkdtemp('splitall')
    w = SessionWorld(root, hdr)
    try:
        sids = [sid for sid in range(1, len(hdr['pool']) + 1) if hdr['best'][sid - 1] >= 0 and hdr['nd'][sid - 1] >= 1]
        recs = []
        for k, sid in enumerate(sids):
            info = w.fitter().fit(fw.make_source(hdr['pool'][sid - 1], name=w.src_name(sid, k)))
            info.keep(('N', 2))
            recs.append(info)
        path = w.path('all')
        fo = FitInfoFile(path, 'w')
        for r in recs:
            fo.write(r)
        fo.close()
        for crit in ('chi', 'cpd'):
            for target in sids:
                div = 1 if crit == 'chi' else hdr['nd'][target - 1]
                for off in (7, -7):
                    thr = Fraction(hdr['best'][target - 1], div) + off                  # in units of 1/Unit
                    verdict = ['T' if Fraction(hdr['best'][sid - 1], 1 if crit == 'chi' else hdr['nd'][sid - 1]) < thr else 'F' for sid in sids]
                    for form in ('path', 'list'):
                        g, bd = w.path('g'), w.path('b')
                        try:
                            with fw.quiet():
                                filter_output(path if form == 'path' else recs, output_good=g, output_bad=bd, **{crit: float(thr) / hdr['unit']})
                        except Exception as e:
                            ctx.violation('C18:split_raised:%s' % type(e).__name__, 'filter_output(%s=%r, %s input) raised %r' % (crit, float(thr) / hdr['unit'], form, e),
                                          {'sources': sids, 'criterion': crit})
                            continue
                        ctx.replayed += 1
                        bad = check_split(g, bd, recs, verdict)
                        if bad:
                            ctx.violation('C18:split_all', 'filter_output(%s=%r, %s input) on pool sources %r (n_data %r, best chi2 x Unit %r): %s'
                                          % (crit, float(thr) / hdr['unit'], form, sids, [hdr['nd'][s_ - 1] for s_ in sids], [hdr['best'][s_ - 1] for s_ in sids], bad),
                                          {'sources': sids, 'criterion': crit, 'threshold': float(thr) / hdr['unit'], 'expected': verdict})
    finally:
        w.close()


def run_C18(ctx):
    hdr = run_common(ctx, 'C18')
    split_all_stage(ctx, hdr)
    record_and_validate(ctx, 'C18', 8 if not ctx.thorough else 48, 8 if not ctx.thorough else 20)
