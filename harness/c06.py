"""C06 -- broadband convolution is the binned integral of F_nu * R_nu.

spec/RebinOps.tla (exact integrals of piecewise-linear responses over midpoint bins) +
Rebin.tla (every small filter x grid) replayed into Filter.rebin / normalize / Filter.read and
(end to end) convolve_model_dir + Trace_Rebin (random larger filters and grids).
"""
import os
import random

import zlib

import numpy as np

from .common import model_check, validate_traces, MachineryError, pmap, Collector, dec7
from .fitworld import frac, fclose

C = 299792458.0
UNU = C / 12e-6          # frequency unit (Hz): lambda = 12/n micron  <->  nu = n * UNU


def make_filter(fx, fy, desc=False, name='flt'):
    from astropy import units as u
    from sedfitter.filter import Filter
    nu = np.array(fx, dtype=float) * UNU
    r = np.array(fy, dtype=float)
    if desc:
        nu, r = nu[::-1], r[::-1]
    # the response is handed over as a float array, an integer array or a plain list (a third each) when its values are whole
    # numbers: R_i is a function of the values, not of their container
    form = zlib.crc32(repr((list(fx), list(fy), bool(desc))).encode()) % 3 if all(float(v) == int(v) for v in fy) else 0
    if form == 1:
        r = r.astype(np.int64)
    elif form == 2:
        r = [int(v) for v in r]
    f = Filter()
    f.name = name
    hv = zlib.crc32(repr((list(fx), list(fy))).encode())
    # frequencies in Hz, GHz or THz and the central wavelength in micron, nm or cm: the filter is the same filter
    f.central_wavelength = (12.0 / (0.5 * (fx[0] + fx[-1])) * u.micron).to([u.micron, u.nm, u.cm][(hv // 3) % 3])
    f.nu = (nu * u.Hz).to([u.Hz, u.GHz, u.THz][(hv // 9) % 3])
    f.response = r
    return f


def filter_from_file(fx, fy, path, wav_increasing):
    """two-column wavelength(micron) / response text file, as Filter.read expects"""
    from sedfitter.filter import Filter
    rows = [(12.0 / x, y) for x, y in zip(fx, fy)]          # decreasing wavelength for increasing fx
    if wav_increasing:
        rows = rows[::-1]
    with open(path, 'w') as f:
        f.write('# wav = %r\n' % (12.0 / (0.5 * (fx[0] + fx[-1]))))
        for w, y in rows:
            f.write('%r %r\n' % (w, float(y)))
    return Filter.read(path)


def grid(gx, desc=False):
    from astropy import units as u
    g = np.array(gx, dtype=float) * UNU
    return (g[::-1] if desc else g) * u.Hz


def check_rebin(col, b, f, how, gdesc):
    want = [float(frac(x)) * UNU for x in b['R']]
    try:
        if (b['fx'][0] + len(b['gx'])) % 2:
            # the same Filter object is first re-binned onto another grid: a second re-binning must not depend on it
            f.rebin(grid([g + 2 for g in b['gx']] + [b['gx'][-1] + 6], not gdesc))
        r = f.rebin(grid(b['gx'], gdesc))
        got = [float(x) for x in r.response]
    except Exception as e:
        col.violation('C06:rebin_raised:%s' % type(e).__name__, 'filter nu=%r R=%r (%s) on grid %r (%s): %r'
                      % (b['fx'], b['fy'], how, b['gx'], 'decreasing' if gdesc else 'increasing', e), dict(b, how=how))
        return None
    if gdesc:
        got = got[::-1]
    col.replayed += 1
    # tolerance relative to the filter's own integral (edges that coincide only approximately, nu = c/lambda)
    scale = max(max(abs(w) for w in want), float(frac(b['total'])) * UNU, UNU * 1e-6)
    for i, (g, w) in enumerate(zip(got, want)):
        if abs(g - w) > 1e-9 * scale:
            kind = 'all_zero' if (all(x == 0 for x in got) and any(w_ != 0 for w_ in want)) else 'value'
            col.violation('C06:rebin:%s:%s' % (how.split(',')[0], kind),
                          'filter nodes %r (x UNU Hz) response %r, %s; SED grid %r %s: binned response %r, exact integrals %r (bin %d differs)'
                          % (b['fx'], b['fy'], how, b['gx'], 'decreasing' if gdesc else 'increasing',
                             [x / UNU for x in got], [w_ / UNU for w_ in want], i), dict(b, how=how, grid_desc=gdesc, observed=[x / UNU for x in got]))
            return None
    return got


def replay_chunk(behs, tmpdir, seed):
    col = Collector()
    rng = random.Random(seed + len(behs))
    for bi, b in enumerate(behs):
        fx, fy = b['fx'], b['fy']
        combos = [(False, False), (True, False), (False, True), (True, True)]
        for fdesc, gdesc in combos:
            f = make_filter(fx, fy, desc=fdesc)
            got = check_rebin(col, b, f, 'in memory, filter stored in %s frequency' % ('decreasing' if fdesc else 'increasing'), gdesc)
        # from a text file (either order of the rows)
        p = os.path.join(tmpdir, 'f_%d_%d.txt' % (os.getpid(), bi))
        for winc in (True, False):
            try:
                f = filter_from_file(fx, fy, p, winc)
            except Exception as e:
                col.violation('C06:read_raised', 'Filter.read raised %r' % (e,), b)
                continue
            check_rebin(col, b, f, 'read from a text file, rows in %s wavelength' % ('increasing' if winc else 'decreasing'), bool(bi % 2))
        os.remove(p)
        # normalisation and the flat spectrum
        tot = float(frac(b['total'])) * UNU
        if tot > 0:
            f = make_filter(fx, fy, desc=bool(bi % 2))
            f.normalize()
            integ = float(np.sum(np.asarray(f.response)))  # not the integral; check through rebin on a covering grid
            inside = b['gx'][0] <= fx[0] and fx[-1] <= b['gx'][-1]
            try:
                r = f.rebin(grid(b['gx'], False))
                s = float(np.sum(7.0 * np.asarray(r.response)))
                want = 7.0 * float(frac(b['conv'])) * 0  # placeholder (unused)
                sumR = float(np.sum(np.asarray(r.response)))
                expect_sum = sum(float(frac(x)) for x in b['R']) * UNU / tot
                col.replayed += 1
                if abs(sumR - expect_sum) > 1e-9:
                    col.violation('C06:normalize', 'normalised filter %r/%r on grid %r: sum of binned responses %r, exact %r' % (fx, fy, b['gx'], sumR, expect_sum), b)
                elif inside and abs(s - 7.0) > 1e-8:
                    col.violation('C06:flat', 'flat spectrum 7 through normalised filter %r/%r inside grid %r gives %r' % (fx, fy, b['gx'], s), b)
            except Exception as e:
                col.violation('C06:rebin_raised:%s' % type(e).__name__, 'normalised filter: %r' % (e,), b)
    return col


# ---- recorded -----------------------------------------------------------------
def record(seeds):
    out = []
    for sd in seeds:
        rng = random.Random(sd)
        nf = rng.choice([2, 3, 4, 6, 10, 20, 40, 60])
        ng = rng.choice([2, 3, 5, 8, 20, 40, 80])
        f0 = rng.randint(2, 40)
        fx = [f0]
        for _ in range(nf - 1):
            fx.append(fx[-1] + rng.choice([1, 2, 2, 3, 4, 6]))
        fy = [rng.randint(0, 9) for _ in fx]
        if rng.random() < 0.5:
            fy[0] = 0
        if rng.random() < 0.5:
            fy[-1] = 0
        span = fx[-1] - fx[0]
        g0 = 2 * rng.randint(max(0, (fx[0] - span) // 2), (fx[-1]) // 2)
        gx = [g0]
        for _ in range(ng - 1):
            gx.append(gx[-1] + 2 * rng.choice([1, 1, 2, 3, 6]))
        fdesc, gdesc = rng.random() < 0.5, rng.random() < 0.5
        f = make_filter(fx, fy, desc=fdesc)
        ev = {'ev': 'Rebin', 'fx': fx, 'fy': fy, 'gx': gx, 'raised': 0, 'R': []}
        try:
            r = np.asarray(f.rebin(grid(gx, gdesc)).response, dtype=float)
            if gdesc:
                r = r[::-1]
            ev['R'] = [dec7(x / UNU) for x in r]
        except Exception:
            ev['raised'] = 1
        out.append([ev])
    return out


def run(ctx):
    q = not ctx.thorough
    cfg = ctx.tmp('rb.cfg')
    mod = 8 if q else 32
    with open(cfg, 'w') as f:
        f.write('SPECIFICATION Spec\nCONSTANTS\n  FNodes = %s\n  FVals = {0, 1, 2}\n  GNodes = %s\n  MaxF = %d\n  MaxG = %d\n  SampleMod = %d\n  SampleRes = %d\n'
                'INVARIANT SumIsOverlapIntegral\nINVARIANT NonNegative\nINVARIANT FlatSpectrum\nINVARIANT Linear\nINVARIANT ZeroOutsideFilter\nINVARIANT EmitInv\nCHECK_DEADLOCK FALSE\n'
                % ('{2, 3, 5, 6, 9, 10}' if q else '{1, 2, 3, 5, 6, 9, 10, 11}', '{0, 2, 4, 6, 8, 10, 12}' if q else '{0, 2, 4, 6, 8, 10, 12, 14}',
                   3 if q else 4, 4 if q else 5, mod, ctx.seed % mod))
    res = model_check(ctx, 'Rebin', cfg, timeout=3000, coverage=False)
    em = res['emitted']
    if not em:
        raise MachineryError('no behaviours emitted')
    ctx.notes['mc_constants'] = 'filters: 2..%d nodes, responses {0,1,2} (zero and non-zero edges); SED grids: 2..%d even nodes (coarser, finer, partial, disjoint, edge-coincident); integer frequency lattice' % (3 if q else 4, 4 if q else 5)
    ctx.notes['behaviours_emitted'] = len(em)
    ctx.sample({'behaviour': em[len(em) // 2]})
    tmpdir = ctx.mkdtemp('flt')
    for col in pmap(lambda c: replay_chunk(c, tmpdir, ctx.seed), em):
        col.merge_into(ctx)
    seeds = [ctx.seed * 100003 + i for i in range(400 if q else 4000)]
    trs = []
    for part in pmap(record, seeds):
        trs.extend(part)
    ctx.sample({'trace': trs[0]})
    rejected = validate_traces(ctx, 'Trace_Rebin', 'Trace_Rebin.cfg', trs, chunk=500)
    for idx, viol in rejected[:10]:
        ctx.violation('C06:trace:%s' % (viol[0][1] if viol else '?'), 'recorded rebin rejected: %r' % (viol,), {'trace': trs[idx], 'viol': viol})
    from .c07 import stage
    stage(ctx, 'C06', 48 if q else 6)       # end to end through convolve_model_dir (both formats, SEDs on their own grids)
    ctx.assumptions += ['frequencies on an integer lattice (unit c/12um so that wavelength files hit it), SED grid nodes even so that bin edges are lattice points',
                        'non-negative integer responses']
