----------------------------- MODULE MC_Planted -----------------------------
(***************************************************************************)
(* C08.  Photometry synthesised from model mp of a package at extinction   *)
(* u0 = 4 A_V0 and scale v0 = 40 s0 (aperture-independent packages) or at  *)
(* grid distance i0 (aperture-dependent packages) is fitted back.  The     *)
(* package is built by pi so that every convolved flux is 10^(E/4) exactly *)
(* (SEDs constant over each normalised filter's support), hence the whole  *)
(* chain SEDs -> convolve -> fit -> write_parameters is decided by         *)
(* FitKernel.  u0, v0 are multiples of 5 so that the photometry is on the  *)
(* quarter-dex lattice.  Non-degeneracy of the grid is CHECKED, not        *)
(* assumed.  An optional 4th model is DARK in one fitted band (zero flux:   *)
(* log flux = -infinity): its chi^2 is NaN (inf - inf in the regression    *)
(* sums) or the 1e30 that replaces an infinite chi^2 (distance mode), and  *)
(* the code's ranking (np.argsort) puts both after every finite number, so *)
(* it never displaces the planted model.                                   *)
(***************************************************************************)
EXTENDS FitKernel, TLC, Json
Grids == << << <<0, 0, 0>>, <<4, -4, 8>>, <<-2, 6, 1>> >>,
            << <<1, 2, 5>>, <<3, 3, 3>>, <<0, 4, -4>> >>,
            << <<0, 0, 0>>, <<2, 1, 0>>, <<-5, 3, 3>> >> >>          \* model 2 = model 1 reddened by u = 5 and rescaled: degenerate pair
KPats == << <<4, 2, 1>>, <<0, 3, 1>> >>
Plants == {<<0, 0>>, <<5, -10>>, <<10, 25>>, <<20, 0>>}     \* (u0, v0)
VARIABLES cfg
Init == cfg \in [g : 1..Len(Grids), k : 1..Len(KPats), mp : 1..3, pl : Plants, w : {1, 4, 16}, mode : {"indep", "dist"}, i0 : 1..3, dark : 0..2]
Spec == Init /\ [][UNCHANGED cfg]_cfg

Grid == Grids[cfg.g]   K == KPats[cfg.k]   u0 == cfg.pl[1]   v0 == cfg.pl[2]
ULo == 0   UHi == 40
\* distance-dependent variant: distances 1, 10, 100 kpc (-8 quarter dex per decade of distance); the tables DEPEND ON THE
\* APERTURE: the flux inside the radius theta * d_i is AP[i] quarter dex above the flux inside the smallest one, so reading the
\* table at any other radius than theta * d_i gives another number
\* the three bands are measured in DIFFERENT apertures (1, 10 and 0.1 arcsec), so each band reads the tables at its own radii:
\* AP[j][i] = quarter dex of band j at distance i (the tables are flat below the second and above the fourth tabulated radius)
AP == << <<0, 1, 2>>, <<1, 2, 2>>, <<0, 0, 1>> >>
Lrow(m, i) == [j \in 1..3 |-> Grid[m][j] - 8 * (i - 1) + AP[j][i]]
Src == IF cfg.mode = "indep"
       THEN [flag |-> <<1, 4, 1>>, Y |-> [j \in 1..3 |-> Grid[cfg.mp][j] - ((u0 * K[j] + v0) \div 5)], W |-> <<cfg.w, cfg.w, cfg.w>>, P |-> <<0, 0, 0>>]
       ELSE [flag |-> <<1, 4, 1>>, Y |-> [j \in 1..3 |-> Lrow(cfg.mp, cfg.i0)[j] - ((u0 * K[j]) \div 5)], W |-> <<cfg.w, cfg.w, cfg.w>>, P |-> <<0, 0, 0>>]
Det3(a, b, c) == a[1] * (b[2] * c[3] - b[3] * c[2]) - a[2] * (b[1] * c[3] - b[3] * c[1]) + a[3] * (b[1] * c[2] - b[2] * c[1])
\* no two models related by a pure reddening + scaling: E_m' - E_m not in span{K, 1}
NonDegenerate == \A m1, m2 \in 1..3 : m1 # m2 =>
                   Det3([j \in 1..3 |-> Grid[m1][j] - Grid[m2][j]], K, <<1, 1, 1>>) # 0
FitM(m) == FitIndep(Src, Grid[m], K, ULo, UHi)
FitD(m) == [i \in 1..3 |-> FitAtDist(Src, Lrow(m, i), K, ULo, UHi)]
PlantedRecovered ==
  IF cfg.mode = "indep"
  THEN /\ FitM(cfg.mp).chi = Zero /\ FitM(cfg.mp).u = RInt(u0) /\ FitM(cfg.mp).v = RInt(v0)
       /\ NonDegenerate => \A m \in 1..3 : m # cfg.mp => RSign(FitM(m).chi) > 0
  ELSE /\ FitD(cfg.mp)[cfg.i0].chi = Zero /\ FitD(cfg.mp)[cfg.i0].u = RInt(u0)
       /\ BestDist(FitD(cfg.mp)) = {cfg.i0}
       /\ NonDegenerate => \A m \in 1..3 : m # cfg.mp => \A i \in 1..3 : RSign(FitD(m)[i].chi) > 0
\* ranking of the code: numbers ascending, NaN last.  Model 4 (present iff cfg.dark > 0) has zero flux in band cfg.dark:
\* every sum of its regression is inf - inf
NModels == IF cfg.dark = 0 THEN 3 ELSE 4
ChiClass(m) == IF m = 4 THEN "nan" ELSE "num"      \* "nan" stands for NaN or Big (>= 1e30)
BestChi(m) == IF cfg.mode = "indep" THEN FitM(m).chi ELSE FitD(m)[CHOOSE i \in BestDist(FitD(m)) : TRUE].chi
Before(m1, m2) == ChiClass(m1) = "num" /\ (ChiClass(m2) = "nan" \/ RLt(BestChi(m1), BestChi(m2)))
PlantedFirst == NonDegenerate => \A m \in 1..NModels : m # cfg.mp => Before(cfg.mp, m)
\* (a fact about the code's ranking, checked on the model only: C08 promises PlantedFirst, not where the dark model ends up)
DarkLast == cfg.dark > 0 => \A m \in 1..3 : Before(m, 4)
EmitInv == PrintT(ToJson([cfg |-> cfg, grid |-> Grid, K |-> K, src |-> Src, nondeg |-> NonDegenerate]))
=============================================================================
