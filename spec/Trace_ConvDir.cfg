SPECIFICATION TSpec
CONSTANTS
  MaxOps = 40
  MaxGen = 40
CHECK_DEADLOCK FALSE
