SPECIFICATION Spec
CONSTANTS
  MaxLen = 5
  MaxKeeps = 0
  Emit = TRUE
INVARIANT EmitInv
CHECK_DEADLOCK FALSE
