------------------------------- MODULE ConvDir -------------------------------
(***************************************************************************)
(* X07 (extension).  The life of a package's convolved/ directory under    *)
(* repeated convolutions.  State: the generation of the SEDs on disk       *)
(* (Bump = the user regenerates / edits the SEDs) and, per output file,    *)
(* the generation of the SEDs it was computed from (0 = absent).           *)
(* Actions, one per call, as the code performs them:                       *)
(*   Convolve(fs, ow)  convolve_model_dir with the filter list fs: every   *)
(*                     flux is computed first, then the files are written  *)
(*                     ONE BY ONE in list order; a file that exists makes  *)
(*                     the call fail at that point unless ow (overwrite)   *)
(*   Mono(lo, hi, ow)  convolve_model_dir_monochromatic over the window of *)
(*                     wavelength indices lo..hi (per-file packages only): *)
(*                     MO<j>.fits written in index order, same rule        *)
(*   Bump              the SEDs change                                     *)
(* Named behaviours: PartialOnConflict (a refused call may already have    *)
(* written a prefix of its files), StaleSurvives (files not named by a     *)
(* later call keep their old generation; nothing marks them as stale).     *)
(***************************************************************************)
EXTENDS Integers, Sequences, FiniteSets, TLC, Json
CONSTANTS MaxOps, MaxGen
Broad == {"A", "B"}
NWav == 3
MonoName(j) == IF j = 1 THEN "MO001" ELSE IF j = 2 THEN "MO002" ELSE "MO003"
Files == Broad \cup {MonoName(j) : j \in 1..NWav}
FilterLists == { <<"A">>, <<"B">>, <<"A", "B">>, <<"B", "A">> }

VARIABLES fmt, gen, files, hist
vars == <<fmt, gen, files, hist>>
Init == /\ fmt \in {"perfile", "cube"} /\ gen = 1 /\ files = [f \in Files |-> 0] /\ hist = <<>>

\* sequential writes of the names in `seq`, stopping at the first existing file unless ow.  Returns <<files', outcome>>
RECURSIVE WriteAll(_, _, _)
WriteAll(fl, seq, ow) ==
  IF seq = <<>> THEN <<fl, "ok">>
  ELSE IF fl[Head(seq)] # 0 /\ ~ow THEN <<fl, "err">>
  ELSE WriteAll([fl EXCEPT ![Head(seq)] = gen], Tail(seq), ow)

Step(op, res) == /\ files' = res[1]
                 /\ hist' = Append(hist, [op |-> op, out |-> res[2], files |-> res[1], gen |-> gen])
                 /\ UNCHANGED <<fmt, gen>>
Convolve(fs, ow) == Len(hist) < MaxOps /\ Step([k |-> "convolve", fs |-> fs, ow |-> ow, lo |-> 0, hi |-> 0], WriteAll(files, fs, ow))
MonoSeq(lo, hi) == [i \in 1..(IF hi >= lo THEN hi - lo + 1 ELSE 0) |-> MonoName(lo + i - 1)]
Mono(lo, hi, ow) == /\ Len(hist) < MaxOps
                    /\ Step([k |-> "mono", fs |-> <<>>, ow |-> ow, lo |-> lo, hi |-> hi],
                            IF fmt = "cube" THEN <<files, "err">> ELSE WriteAll(files, MonoSeq(lo, hi), ow))
Bump == /\ Len(hist) < MaxOps /\ gen < MaxGen /\ gen' = gen + 1
        /\ hist' = Append(hist, [op |-> [k |-> "bump", fs |-> <<>>, ow |-> FALSE, lo |-> 0, hi |-> 0], out |-> "ok", files |-> files, gen |-> gen + 1])
        /\ UNCHANGED <<fmt, files>>
Next == \/ \E fs \in FilterLists, ow \in BOOLEAN : Convolve(fs, ow)
        \/ \E lo \in 1..NWav, hi \in 0..NWav, ow \in BOOLEAN : (hi >= lo - 1) /\ Mono(lo, hi, ow)
        \/ Bump
Spec == Init /\ [][Next]_vars

LastCall == hist'[Len(hist')]
Requested(op) == IF op.k = "convolve" THEN {op.fs[i] : i \in 1..Len(op.fs)}
                 ELSE IF op.k = "mono" THEN {MonoName(j) : j \in op.lo..op.hi} ELSE {}
\* a call without overwrite never changes a file that existed
NoSilentOverwriteStep == (hist' # hist /\ ~LastCall.op.ow) => \A f \in Files : files[f] # 0 => files'[f] = files[f]
NoSilentOverwrite == [][NoSilentOverwriteStep]_vars
\* a successful call leaves every file it names computed from the SEDs now on disk; files it does not name are untouched
OkMeansFreshStep == (hist' # hist /\ LastCall.out = "ok" /\ LastCall.op.k # "bump") =>
                      /\ \A f \in Requested(LastCall.op) : files'[f] = gen
                      /\ \A f \in Files \ Requested(LastCall.op) : files'[f] = files[f]
OkMeansFresh == [][OkMeansFreshStep]_vars
OverwriteNeverRefusedStep == (hist' # hist /\ LastCall.op.ow /\ ~(LastCall.op.k = "mono" /\ fmt = "cube")) => LastCall.out = "ok"
OverwriteNeverRefused == [][OverwriteNeverRefusedStep]_vars
\* a refused call changed only files it names, and only from absent to fresh (named behaviour PartialOnConflict: it MAY have)
RefusedTouchesOnlyOwnStep == (hist' # hist /\ LastCall.out = "err") =>
                      \A f \in Files : files'[f] # files[f] => (f \in Requested(LastCall.op) /\ files[f] = 0 /\ files'[f] = gen)
RefusedTouchesOnlyOwn == [][RefusedTouchesOnlyOwnStep]_vars
\* the directory never holds a file from the future
NoFuture == \A f \in Files : files[f] <= gen
\* reachability of the named behaviours (negated in MC_ConvDir_reach.cfg)
NeverPartial == ~(\E i \in 1..Len(hist) : hist[i].out = "err" /\ hist[i].op.k = "convolve" /\
                    \E f \in Requested(hist[i].op) : hist[i].files[f] = hist[i].gen /\ (i = 1 \/ hist[i - 1].files[f] = 0))
NeverStale == ~(\E f \in Files : files[f] # 0 /\ files[f] < gen /\ Len(hist) > 0 /\ hist[Len(hist)].out = "ok" /\ hist[Len(hist)].op.k = "convolve")

Done == Len(hist) = MaxOps
Checksum == Len(hist)
EmitInv == Done => PrintT(ToJson([fmt |-> fmt, hist |-> hist]))
=============================================================================
