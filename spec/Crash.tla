-------------------------------- MODULE Crash --------------------------------
(***************************************************************************)
(* C19: a fit output file is an append-only stream of self-delimiting      *)
(* blocks: three metadata blocks (model_dir, filters, extinction law) then *)
(* one block per record.  A crash keeps only the bytes before offset k.    *)
(* The reader (FitInfoFile.__init__/__iter__) opens the file by loading    *)
(* the three metadata blocks, then loads records until end of file.        *)
(* A block wholly before k loads as written; no byte left = end of file;   *)
(* a partially present block fails to load (error).                        *)
(***************************************************************************)
EXTENDS Integers, Sequences, FiniteSets, TLC
CONSTANTS Sizes,      \* admissible block sizes in bytes
          MaxRecs     \* records written: 1..MaxRecs
VARIABLES blocks,     \* sizes of the blocks written so far (3 metadata + records)
          phase,      \* "write" -> "crashed" -> "open" -> "iter" -> "stopped" | "failed"
          cut,        \* number of bytes that survive
          pos,        \* reader: index of the next block to load
          yielded     \* reader: indices (into blocks) of the records yielded so far
vars == <<blocks, phase, cut, pos, yielded>>

RECURSIVE Sum(_)
Sum(s) == IF s = <<>> THEN 0 ELSE Head(s) + Sum(Tail(s))
EndOf(i) == Sum(SubSeq(blocks, 1, i))            \* offset just after block i
Total == Sum(blocks)
NRecs == Len(blocks) - 3

Init == blocks = <<>> /\ phase = "write" /\ cut = 0 /\ pos = 1 /\ yielded = <<>>

WriteBlock(sz) == /\ phase = "write" /\ Len(blocks) < 3 + MaxRecs
                  /\ blocks' = Append(blocks, sz)
                  /\ UNCHANGED <<phase, cut, pos, yielded>>
\* crash (or full disk) at any byte of a file holding at least one record
CrashAt(k) == /\ phase = "write" /\ Len(blocks) >= 4 /\ k \in 0..(Total - 1)
              /\ cut' = k /\ phase' = "crashed"
              /\ UNCHANGED <<blocks, pos, yielded>>

\* load block pos: "ok" if wholly present, "eof" if no byte of it is present, else "err"
LoadOutcome == IF pos > Len(blocks) \/ EndOf(pos - 1) >= cut THEN "eof"
               ELSE IF EndOf(pos) <= cut THEN "ok" ELSE "err"

Open == /\ phase = "crashed"
        /\ phase' = "open" /\ pos' = 1
        /\ UNCHANGED <<blocks, cut, yielded>>
LoadMeta == /\ phase = "open" /\ pos <= 3
            /\ IF LoadOutcome = "ok" THEN (pos' = pos + 1 /\ phase' = IF pos = 3 THEN "iter" ELSE "open")
               ELSE (phase' = "failed" /\ pos' = pos)     \* EOFError and others propagate from __init__
            /\ UNCHANGED <<blocks, cut, yielded>>
LoadRecord == /\ phase = "iter"
              /\ CASE LoadOutcome = "ok"  -> yielded' = Append(yielded, pos) /\ pos' = pos + 1 /\ phase' = "iter"
                   [] LoadOutcome = "eof" -> phase' = "stopped" /\ UNCHANGED <<pos, yielded>>
                   [] LoadOutcome = "err" -> phase' = "failed" /\ UNCHANGED <<pos, yielded>>
              /\ UNCHANGED <<blocks, cut>>

Next == (\E sz \in Sizes : WriteBlock(sz)) \/ (\E k \in 0..(Total - 1) : CrashAt(k))
        \/ Open \/ LoadMeta \/ LoadRecord
Spec == Init /\ [][Next]_vars /\ WF_vars(Open \/ LoadMeta \/ LoadRecord)

(* C19 *)
PrefixOrError == /\ \A i \in 1..Len(yielded) : yielded[i] = 3 + i        \* exact prefix, in order, never invented
                 /\ phase # "write" => Len(yielded) <= NRecs
                 /\ \A i \in 1..Len(yielded) : EndOf(yielded[i]) <= cut \/ phase = "write"
\* the reader never yields a record after a failure, and a clean stop means every surviving
\* byte was consumed
CleanStop == phase = "stopped" => (pos >= 4 /\ EndOf(pos - 1) >= cut)
\* what an observer may see for a given cut: open error | n records then stop | n records then error
Outcome == [opened |-> phase \in {"iter", "stopped"} \/ (phase = "failed" /\ pos > 3),
            n |-> Len(yielded),
            ended |-> IF phase = "stopped" THEN "eof" ELSE IF phase = "failed" THEN "error" ELSE "running"]
\* the same reader as a function of (blocks, cut): what an observer sees
RECURSIVE SumTo(_, _)
SumTo(bl, i) == IF i = 0 THEN 0 ELSE bl[i] + SumTo(bl, i - 1)
ReadResult(bl, k) ==
  IF SumTo(bl, 3) > k THEN [opened |-> FALSE, n |-> 0, ended |-> "error"]
  ELSE LET n == Cardinality({i \in 4..Len(bl) : SumTo(bl, i) <= k})
       IN  [opened |-> TRUE, n |-> n, ended |-> IF SumTo(bl, 3 + n) >= k THEN "eof" ELSE "error"]
ReaderIsReadResult == phase \in {"stopped", "failed"} => Outcome = ReadResult(blocks, cut)
Terminates == (phase = "crashed") ~> (phase \in {"stopped", "failed"})
=============================================================================
