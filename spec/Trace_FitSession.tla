--------------------------- MODULE Trace_FitSession ---------------------------
(* Recorded sessions (fit() run, file read back, post-processing, filter_output) *)
(* validated against FitSession.  The run's loop steps ReadLine / FitKeep /      *)
(* AppendRec are not logged: they are composed silently between the logged       *)
(* "Run" (arguments) and "File" (records read back) events, bounded by pc.       *)
(* The world (pool, grid, K, U, Unit) is the generated module TraceWorldDefs.    *)
EXTENDS FitSession, TraceWorldDefs, Json, IOUtils, SequencesExt, FiniteSetsExt
Traces == JsonDeserialize(IOEnv.TRACE_FILE)
VARIABLES tid, l, viol
tvars == <<tid, l, viol>>
Tr == Traces[tid]
ASSUME UnitOK

TInit == Init /\ tid \in 1..Len(Traces) /\ l = 1 /\ viol = {}

EvRun == /\ l <= Len(Tr) /\ Tr[l].ev = "Run" /\ pc = "start"
         /\ run' = [lines |-> Tr[l].lines, nmin |-> Tr[l].nmin, sel |-> Tr[l].sel, conv |-> (Tr[l].conv = 1)]
         /\ pc' = "read" /\ l' = l + 1
         /\ UNCHANGED <<pos, cur, file, objs, nposts, hist, tid, viol>>
Silent == /\ pc \in {"read", "fit", "append"}
          /\ (ReadLine \/ FitKeep \/ AppendRec)
          /\ UNCHANGED tvars
\* the records read back from the output file (sid recovered from the source name)
EvFile == /\ l <= Len(Tr) /\ Tr[l].ev = "File" /\ pc = "done"
          /\ LET e == Tr[l] IN
             viol' = viol
               \cup (IF Len(e.recs) = Len(file) THEN {} ELSE {<<l, "file.record_count">>})
               \cup (IF \A i \in 1..Len(e.recs) : i <= Len(file) =>
                          (e.recs[i].sid = file[i].sid /\ e.recs[i].n = file[i].n /\ (e.recs[i].pred = 1) = file[i].pred)
                     THEN {} ELSE {<<l, "file.record">>})
               \cup (IF \A i \in 1..Len(e.recs) : e.recs[i].eqobj = 1 THEN {} ELSE {<<l, "file.differs_from_object_interface">>})
               \cup (IF e.meta = 1 THEN {} ELSE {<<l, "file.meta">>})
          /\ l' = l + 1 /\ UNCHANGED <<vars, tid>>
EvLoad == /\ l <= Len(Tr) /\ Tr[l].ev = "Load" /\ Load
          /\ viol' = viol \cup (IF Tr[l].n = Len(file) THEN {} ELSE {<<l, "load.count">>})
          /\ l' = l + 1 /\ UNCHANGED tid
EvPost == /\ l <= Len(Tr) /\ Tr[l].ev = "Post"
          /\ LET e == Tr[l]
                 want == PostOut(Input(e.form), e.sel)
             IN  /\ Post(e.kind, e.form, e.sel)
                 /\ viol' = viol
                     \cup (IF e.raised = 0 THEN {} ELSE {<<l, "post.raised">>})
                     \cup (IF e.raised = 1 \/ (Len(e.out) = Len(want) /\ \A i \in 1..Len(want) :
                                 /\ e.out[i].sid = want[i].sid
                                 /\ (e.out[i].nd = -1 \/ e.out[i].nd = want[i].nd)
                                 /\ want[i].lo <= e.out[i].n /\ e.out[i].n <= want[i].hi
                                 /\ e.out[i].rows = e.out[i].n)
                           THEN {} ELSE {<<l, "post.output">>})
                     \cup (IF e.pure = 1 THEN {} ELSE {<<l, "post.results_modified">>})
          /\ l' = l + 1 /\ UNCHANGED tid
EvSplit == /\ l <= Len(Tr) /\ Tr[l].ev = "Split"
           /\ LET e == Tr[l]
                  recs == Input(e.form)
                  v(i) == Good(recs[i], e.crit, e.thr)
              IN  /\ Split(e.form, e.crit, e.thr)
                  /\ viol' = viol
                      \cup (IF e.raised = 0 THEN {} ELSE {<<l, "split.raised">>})
                      \cup (IF e.raised = 1 \/ (Len(e.where) = Len(recs) /\ \A i \in 1..Len(recs) :
                                   /\ e.where[i] \in {"good", "bad"}                  \* exactly one file
                                   /\ (v(i) = "T" => e.where[i] = "good")
                                   /\ (v(i) = "F" => e.where[i] = "bad"))
                            THEN {} ELSE {<<l, "split.verdict">>})
                      \cup (IF e.raised = 1 \/ (e.order = 1 /\ e.equal = 1) THEN {} ELSE {<<l, "split.order_or_record">>})
                      \cup (IF e.pure = 1 THEN {} ELSE {<<l, "split.results_modified">>})
           /\ l' = l + 1 /\ UNCHANGED tid
EvBad == /\ l <= Len(Tr) /\ pc \notin {"read", "fit", "append"}
         /\ ~(Tr[l].ev = "Run" /\ pc = "start") /\ ~(Tr[l].ev = "File" /\ pc = "done")
         /\ ~(Tr[l].ev = "Load" /\ pc = "done" /\ objs = <<>> /\ file # <<>>) /\ ~(Tr[l].ev = "Post" /\ pc = "done" /\ objs # <<>>)
         /\ ~(Tr[l].ev = "Split" /\ pc = "done" /\ objs # <<>>)
         /\ viol' = viol \cup {<<l, "event.not_enabled">>} /\ l' = l + 1 /\ UNCHANGED <<vars, tid>>
Done == /\ l = Len(Tr) + 1 /\ pc \notin {"read", "fit", "append"}
        /\ PrintT(ToJson([tid |-> tid, ok |-> (viol = {}), viol |-> SetToSeq(viol)]))
        /\ l' = l + 1 /\ UNCHANGED <<vars, tid, viol>>
TNext == EvRun \/ Silent \/ EvFile \/ EvLoad \/ EvPost \/ EvSplit \/ EvBad \/ Done
TSpec == TInit /\ [][TNext]_<<vars, tvars>>
=============================================================================
