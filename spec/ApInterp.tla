------------------------------- MODULE ApInterp -------------------------------
(***************************************************************************)
(* C13.  Aperture interpolation of a table family: rows r (models of a     *)
(* convolved-flux table, or wavelengths of an SED), knots = tabulated      *)
(* aperture radii (increasing).  Interp(row, rho):                         *)
(*    refuse                      if rho < smallest radius                 *)
(*    value at the largest radius if rho > largest radius                  *)
(*    linear interpolant          otherwise                                *)
(* a single-aperture table is repeated whatever the request.  One call     *)
(* carries a vector of requests; one too-small request refuses the call.   *)
(* Radii are integers (AU); requests are half-integers given as 2*rho.     *)
(***************************************************************************)
EXTENDS ApInterpOps, TLC, Json
CONSTANTS Radii, Vals, NRows, MaxKnots, Req2, SampleMod, SampleRes
VARIABLES aps,    \* Seq(Int): tabulated radii
          rows    \* Seq over rows of Seq(Int) over knots
vars == <<aps, rows>>

TooSmall(q2) == TooSmallT(aps, q2)
\* ALGORITHM LAYER (ConvolvedFluxes.interpolate / SED.interpolate), see ApInterpOps
Interp(r, q2) == InterpT(aps, rows[r], q2)
CallResult(reqs) == IF \E k \in 1..Len(reqs) : TooSmall(reqs[k]) THEN [refuse |-> TRUE, val |-> <<>>]
                    ELSE [refuse |-> FALSE, val |-> [r \in 1..NRows |-> [k \in 1..Len(reqs) |-> Interp(r, reqs[k])]]]

Init == aps = <<>> /\ rows = [r \in 1..NRows |-> <<>>]
AddKnot(a, vs) == /\ Len(aps) < MaxKnots
                  /\ (IF Len(aps) = 0 THEN TRUE ELSE aps[Len(aps)] < a)
                  /\ aps' = Append(aps, a)
                  /\ rows' = [r \in 1..NRows |-> Append(rows[r], vs[r])]
Next == \E a \in Radii, vs \in [1..NRows -> Vals] : AddKnot(a, vs)
Spec == Init /\ [][Next]_vars

(* PROPERTY LAYER (C13), declaratively *)
Has == Len(aps) >= 1
ExactAtKnots == Has => \A r \in 1..NRows, i \in 1..Len(aps) : Interp(r, 2 * aps[i]) = RInt(rows[r][i])
LinearBetween == Has => \A r \in 1..NRows, i \in 1..(Len(aps) - 1) : \A q2 \in Req2 :
                   (2 * aps[i] <= q2 /\ q2 <= 2 * aps[i + 1]) =>
                      \* (rho - a_i) * (f_{i+1} - f_i) = (value - f_i) * (a_{i+1} - a_i)
                      RMul(RSub(R(q2, 2), RInt(aps[i])), RInt(rows[r][i + 1] - rows[r][i]))
                        = RMul(RSub(Interp(r, q2), RInt(rows[r][i])), RInt(aps[i + 1] - aps[i]))
ClampedAbove == Has => \A r \in 1..NRows : \A q2 \in Req2 :
                   q2 > 2 * aps[Len(aps)] => Interp(r, q2) = RInt(rows[r][Len(aps)])
RefusedBelow == Has => \A q2 \in Req2 : (Len(aps) > 1 /\ q2 < 2 * aps[1]) <=> CallResult(<<q2>>).refuse
SingleRepeats == Len(aps) = 1 => \A r \in 1..NRows : \A q2 \in Req2 : Interp(r, q2) = RInt(rows[r][1])
\* a refusal is caused only by a too-small request; other requests in the same call are unaffected
CallIsPointwise == Has => \A q2 \in Req2, p2 \in {1, 7, 40} :
                     LET c == CallResult(<<q2, p2>>)
                     IN  IF TooSmall(q2) \/ TooSmall(p2) THEN c.refuse
                         ELSE ~c.refuse /\ \A r \in 1..NRows : c.val[r][1] = Interp(r, q2) /\ c.val[r][2] = Interp(r, p2)

RECURSIVE Sum(_)
Sum(s) == IF s = <<>> THEN 0 ELSE Head(s) + Sum(Tail(s))
Checksum == Sum([i \in 1..Len(aps) |-> aps[i] * 5 + i * Sum([r \in 1..NRows |-> rows[r][i] * (r + 2)])])
EmitInv == (Has /\ Checksum % SampleMod = SampleRes) =>
             PrintT(ToJson([aps |-> aps, rows |-> rows,
                            exp |-> [q2 \in Req2 |-> IF TooSmall(q2) THEN <<>> ELSE [r \in 1..NRows |-> Interp(r, q2)]]]))
=============================================================================
