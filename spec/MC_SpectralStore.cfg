SPECIFICATION Spec
CONSTANTS
  NM = 2
  NA = 2
  NW = 3
  MaxOps = 5
INVARIANT ReadBack
INVARIANT ModelIdentity
INVARIANT AxisIsMonotone
INVARIANT OtherOrderOnlyReverses
INVARIANT EmitInv
CHECK_DEADLOCK FALSE
