SPECIFICATION Spec
CONSTANTS
  MaxOps = 3
  MaxGen = 3
INVARIANT NoFuture
INVARIANT EmitInv
PROPERTY NoSilentOverwrite
PROPERTY OkMeansFresh
PROPERTY OverwriteNeverRefused
PROPERTY RefusedTouchesOnlyOwn
CHECK_DEADLOCK FALSE
