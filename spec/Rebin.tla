-------------------------------- MODULE Rebin --------------------------------
(* Exhaustive instance of RebinOps: every filter (node subset x responses) and   *)
(* every SED grid within the constants, built node by node.                      *)
EXTENDS RebinOps, TLC, Json
CONSTANTS FNodes, FVals, GNodes, MaxF, MaxG, SampleMod, SampleRes
VARIABLES fx, fy, gx, phase
vars == <<fx, fy, gx, phase>>
Init == fx = <<>> /\ fy = <<>> /\ gx = <<>> /\ phase = "filter"
AddF(x, y) == /\ phase = "filter" /\ Len(fx) < MaxF
              /\ (IF Len(fx) = 0 THEN TRUE ELSE fx[Len(fx)] < x)
              /\ fx' = Append(fx, x) /\ fy' = Append(fy, y) /\ UNCHANGED <<gx, phase>>
SealF == phase = "filter" /\ Len(fx) >= 2 /\ phase' = "grid" /\ UNCHANGED <<fx, fy, gx>>
AddG(x) == /\ phase = "grid" /\ Len(gx) < MaxG
           /\ (IF Len(gx) = 0 THEN TRUE ELSE gx[Len(gx)] < x)
           /\ gx' = Append(gx, x) /\ UNCHANGED <<fx, fy, phase>>
Next == (\E x \in FNodes, y \in FVals : AddF(x, y)) \/ SealF \/ (\E x \in GNodes : AddG(x))
Spec == Init /\ [][Next]_vars

Ready == phase = "grid" /\ Len(gx) >= 2
RB == Rebin(fx, fy, gx)
(* C06 *)
SumIsOverlapIntegral == Ready => RSumSeq(RB) = OverlapIntegral(fx, fy, gx)
NonNegative == Ready => \A i \in 1..Len(gx) : RSign(RB[i]) >= 0
\* a filter lying inside the SED range, normalised to unit integral, returns c for F_nu = c
FlatSpectrum == (Ready /\ gx[1] <= fx[1] /\ fx[Len(fx)] <= gx[Len(gx)] /\ FilterIntegral(fx, fy) # Zero) =>
                  RDiv(Conv([i \in 1..Len(gx) |-> 7], RB), FilterIntegral(fx, fy)) = RInt(7)
Linear == Ready => LET F1 == [i \in 1..Len(gx) |-> i]  F2 == [i \in 1..Len(gx) |-> 3 + ((i * i) % 4)]
                   IN  Conv([i \in 1..Len(gx) |-> 2 * F1[i] + 5 * F2[i]], RB) = RAdd(RScale(2, Conv(F1, RB)), RScale(5, Conv(F2, RB)))
\* bins outside the filter carry nothing
ZeroOutsideFilter == Ready => \A i \in 1..Len(gx) : (Hi(gx, i) <= fx[1] \/ Lo(gx, i) >= fx[Len(fx)]) => RB[i] = Zero

RECURSIVE Sum(_)
Sum(s) == IF s = <<>> THEN 0 ELSE Head(s) + Sum(Tail(s))
Checksum == Sum([i \in 1..Len(fx) |-> fx[i] * 3 + fy[i] * 5 * i]) + Sum([i \in 1..Len(gx) |-> gx[i] * (i + 1)])
Fl(i) == 1 + ((i * 7) % 5)      \* SED fluxes / errors used for the end-to-end expectation
Er(i) == 1 + ((i * 3) % 4)
EmitInv == (Ready /\ Checksum % SampleMod = SampleRes) =>
             PrintT(ToJson([fx |-> fx, fy |-> fy, gx |-> gx, R |-> RB, total |-> FilterIntegral(fx, fy),
                            conv |-> Conv([i \in 1..Len(gx) |-> Fl(i)], RB), err2 |-> Err2([i \in 1..Len(gx) |-> Er(i)], RB)]))
=============================================================================
