------------------------------- MODULE Select -------------------------------
(***************************************************************************)
(* Selection tuples of sedfitter (docs/select_syntax.rst, FitInfo.keep)    *)
(* over ABSTRACT FLOATS.  Constant-level module: no variables, reused by   *)
(* MC_Select, Trace_Select, FitSession.                                    *)
(*                                                                         *)
(* A chi^2 value is one of                                                 *)
(*    Fin(a)   a/4 exactly (a \in Int, quarter units)                      *)
(*    Big(n)   n * 1e30  (what chi_squared() substitutes for infinities;   *)
(*             float absorption: Big(n) + finite = Big(n))                 *)
(*    Inf      +infinity (remove_resolved)                                 *)
(*    NaN                                                                  *)
(* A threshold is Fin(t) (t/4), BigH(m) = (m + 1/2) * 1e30, or Inf.        *)
(* IEEE rules: every comparison with NaN is FALSE, Inf - Inf = NaN,        *)
(* x/0 = Inf for x > 0, 0/0 = NaN.                                         *)
(***************************************************************************)
EXTENDS Integers, Sequences, FiniteSets

Fin(a)  == [k |-> "fin", v |-> a]
Big(n)  == [k |-> "big", v |-> n]
Inf     == [k |-> "inf", v |-> 0]
NaN     == [k |-> "nan", v |-> 0]
BigH(m) == [k |-> "bigh", v |-> m]

KindRank(x) == CASE x.k = "fin" -> 0 [] x.k = "big" -> 1 [] x.k = "bigh" -> 1
                 [] x.k = "inf" -> 2 [] x.k = "nan" -> 3

\* total preorder used by np.argsort: NaN last, ties in any order
SortLe(x, y) == \/ KindRank(x) < KindRank(y)
                \/ KindRank(x) = KindRank(y) /\ (x.k \in {"inf", "nan"} \/ x.v <= y.v)

Ranked(chis) == \A i \in 1..(Len(chis) - 1) : SortLe(chis[i], chis[i + 1])

\* x - y where y is the best (smallest) chi^2 of a ranked vector
FSub(x, y) ==
  IF x.k = "nan" \/ y.k = "nan" THEN NaN
  ELSE IF x.k = "inf" THEN (IF y.k = "inf" THEN NaN ELSE Inf)
  ELSE IF y.k = "inf" THEN NaN            \* unreachable for ranked input: -inf
  ELSE IF x.k = "big" THEN (IF y.k = "big" THEN (IF x.v = y.v THEN Fin(0) ELSE Big(x.v - y.v))
                                            ELSE Big(x.v))
  ELSE IF y.k = "big" THEN NaN            \* unreachable for ranked input: negative big
  ELSE Fin(x.v - y.v)

\* three-valued "x / nd <= thr": "T", "F" or "B" (boundary: exactly equal, floats may go
\* either way only in the sense that the *documentation* says "below" and the code "<=";
\* the property excludes it, the spec admits both counts).
LeDiv(x, nd, thr) ==
  IF x.k = "nan" THEN "F"
  ELSE IF nd = 0 THEN
       \* x/0: 0/0 = NaN, positive/0 = +Inf
       (IF x.k = "fin" /\ x.v = 0 THEN "F"
        ELSE IF x.k = "fin" /\ x.v < 0 THEN "T"
        ELSE IF thr.k = "inf" THEN "T" ELSE "F")
  ELSE IF x.k = "inf" THEN (IF thr.k = "inf" THEN "T" ELSE "F")
  ELSE IF x.k = "big" THEN
       (CASE thr.k = "fin"  -> "F"
          [] thr.k = "bigh" -> IF 2 * x.v < (2 * thr.v + 1) * nd THEN "T"
                                ELSE IF 2 * x.v = (2 * thr.v + 1) * nd THEN "B" ELSE "F"     \* n e30 / nd = (m + 1/2) e30 exactly
          [] thr.k = "inf"  -> "T")
  ELSE \* fin
       (CASE thr.k = "fin"  -> IF x.v < thr.v * nd THEN "T"
                                ELSE IF x.v = thr.v * nd THEN "B" ELSE "F"
          [] thr.k = "bigh" -> "T"
          [] thr.k = "inf"  -> "T")

Sat(chis, sel, nd, i) ==
  CASE sel.f = "C" -> LeDiv(chis[i], 1, sel.v)
    [] sel.f = "D" -> LeDiv(FSub(chis[i], chis[1]), 1, sel.v)
    [] sel.f = "E" -> LeDiv(chis[i], nd, sel.v)
    [] sel.f = "F" -> LeDiv(FSub(chis[i], chis[1]), nd, sel.v)

Min2(a, b) == IF a < b THEN a ELSE b

(* ALGORITHM LAYER: what FitInfo.keep does -- count the fits that satisfy the       *)
(* criterion, then slice every per-fit array to that length.  Returns the SET of    *)
(* admissible counts: a singleton unless some fit sits exactly on the threshold.    *)
KeepCounts(chis, sel, nd) ==
  LET n == Len(chis) IN
  IF n = 0 THEN {0}
  ELSE CASE sel.f = "A" -> {n}
         [] sel.f = "N" -> {Min2(sel.v, n)}
         [] OTHER ->
              LET yes == Cardinality({i \in 1..n : Sat(chis, sel, nd, i) = "T"})
                  bnd == Cardinality({i \in 1..n : Sat(chis, sel, nd, i) = "B"})
              IN  yes .. (yes + bnd)

OnBoundary(chis, sel, nd) == Cardinality(KeepCounts(chis, sel, nd)) > 1

(* PROPERTY LAYER: the declarative reading of docs/select_syntax.rst.               *)
(* count n is right iff the kept fits 1..n are exactly the fits satisfying the      *)
(* criterion (so in particular the satisfying fits form a prefix of the ranking).   *)
ExactlyThePromised(chis, sel, nd, n) ==
  LET tot == Len(chis) IN
  CASE tot = 0     -> n = 0
    [] sel.f = "A" -> n = tot
    [] sel.f = "N" -> n = Min2(sel.v, tot)
    [] OTHER       -> \A i \in 1..tot :
                         /\ Sat(chis, sel, nd, i) = "T" => i <= n
                         /\ Sat(chis, sel, nd, i) = "F" => i > n

Prefix(s, n) == SubSeq(s, 1, n)
=============================================================================
