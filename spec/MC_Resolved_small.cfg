SPECIFICATION Spec
CONSTANTS
  RFlags = {0, 1, 3, 4, 9}
  RYs = {4, 12}
  RWs = {1}
  RPs = {2}
  RMod = 1
INVARIANT NeverReportedWhereResolved
INVARIANT EmitInv
CHECK_DEADLOCK FALSE
