-------------------------------- MODULE Radius --------------------------------
(***************************************************************************)
(* Extension beyond the listed properties: the two radius finders of       *)
(* ConvolvedFluxes (used by remove_resolved) as exact rational functions   *)
(* of an aperture table, MongoDB-style: the case analysis is transcribed   *)
(* (ALGORITHM LAYER, the loops of the code) and related to a declarative   *)
(* reading (PROPERTY LAYER); TLC enumerates every small table and emits    *)
(* one implementation test per state.                                      *)
(*  aps : increasing integer radii a_1..a_n (n >= 2);  fl : integer fluxes *)
(*  surface brightness  s_1 = F_1/a_1^2,  s_k = (F_k-F_{k-1})/(a_k^2-a_{k-1}^2) *)
(***************************************************************************)
EXTENDS Rat, TLC, Json
CONSTANTS Radii, Vals, MaxKnots
Fracs == {<<1, 2>>, <<99, 100>>, <<1, 10>>}      \* the fractions used by the callers (0.5 for remove_resolved) and two others
VARIABLES aps, fl
vars == <<aps, fl>>
N == Len(aps)
Sig(k) == IF k = 1 THEN R(fl[1], aps[1] * aps[1]) ELSE R(fl[k] - fl[k - 1], aps[k] * aps[k] - aps[k - 1] * aps[k - 1])
RMaxSeq(n) == LET RECURSIVE M(_)
                  M(k) == IF k = 1 THEN Sig(1) ELSE RMax(Sig(k), M(k - 1))
              IN  M(n)
\* ALGORITHM LAYER: find_radius_sigma -- loop from the outside inwards, first hit wins, then the last-aperture override
RECURSIVE SigmaLoop(_, _, _)
SigmaLoop(ia, thr, radius) ==
  IF ia = 0 THEN radius
  ELSE IF RLt(thr, Sig(ia)) /\ radius = Zero
       THEN SigmaLoop(ia - 1, thr, RAdd(RMul(RDiv(RSub(Sig(ia), thr), RSub(Sig(ia), Sig(ia + 1))), RInt(aps[ia + 1] - aps[ia])), RInt(aps[ia])))
       ELSE SigmaLoop(ia - 1, thr, radius)
RadiusSigma(f) == LET thr == RMul(f, RMaxSeq(N))
                      r == SigmaLoop(N - 1, thr, Zero)
                  IN  IF RLt(thr, Sig(N)) THEN RInt(aps[N]) ELSE r
\* PROPERTY LAYER: the outermost radius at which the (piecewise-linear in radius) surface brightness exceeds f * peak
Outer(f) == LET thr == RMul(f, RMaxSeq(N)) S == {k \in 1..N : RLt(thr, Sig(k))} IN IF S = {} THEN 0 ELSE CHOOSE k \in S : \A j \in S : j <= k
SigmaRadiusIsOutermostCrossing(f) ==
  LET k == Outer(f)  r == RadiusSigma(f)  thr == RMul(f, RMaxSeq(N))
  IN  IF k = 0 THEN r = Zero
      ELSE IF k = N THEN r = RInt(aps[N])
      ELSE /\ RLe(RInt(aps[k]), r) /\ RLe(r, RInt(aps[k + 1]))
           \* linear interpolation of s between a_k and a_{k+1} equals the threshold at r
           /\ RAdd(Sig(k), RMul(RDiv(RSub(r, RInt(aps[k])), RInt(aps[k + 1] - aps[k])), RSub(Sig(k + 1), Sig(k)))) = thr

\* ALGORITHM LAYER: find_radius_cumul -- every bracketing interval assigns (the last one wins), then the two overrides
RECURSIVE CumulLoop(_, _, _)
CumulLoop(ia, req, radius) ==
  IF ia = N THEN radius
  ELSE IF RLe(RInt(fl[ia]), req) /\ RLt(req, RInt(fl[ia + 1]))
       THEN CumulLoop(ia + 1, req, RAdd(RMul(RDiv(RSub(req, RInt(fl[ia])), RInt(fl[ia + 1] - fl[ia])), RInt(aps[ia + 1] - aps[ia])), RInt(aps[ia])))
       ELSE CumulLoop(ia + 1, req, radius)
RadiusCumul(f) == LET req == RMul(f, RInt(fl[N]))
                      r == CumulLoop(1, req, Zero)
                      r2 == IF RLt(req, RInt(fl[1])) THEN RInt(aps[1]) ELSE r
                  IN  IF RLe(RInt(fl[N]), req) THEN RInt(aps[N]) ELSE r2
\* PROPERTY LAYER (for non-decreasing cumulative fluxes): the interpolated cumulative flux at the radius is f * total
Monotone == \A k \in 1..(N - 1) : fl[k] <= fl[k + 1]
CumAt(r) == LET k == CHOOSE j \in 1..(N - 1) : RLe(RInt(aps[j]), r) /\ RLe(r, RInt(aps[j + 1]))
            IN  RAdd(RInt(fl[k]), RMul(RDiv(RSub(r, RInt(aps[k])), RInt(aps[k + 1] - aps[k])), RInt(fl[k + 1] - fl[k])))
CumulRadiusContainsFraction(f) ==
  (Monotone /\ fl[N] > 0) =>
     LET r == RadiusCumul(f)  req == RMul(f, RInt(fl[N]))
     IN  /\ RLe(RInt(aps[1]), r) /\ RLe(r, RInt(aps[N]))
         /\ (RLe(RInt(fl[1]), req) /\ RLt(req, RInt(fl[N]))) => CumAt(r) = req

Init == aps = <<>> /\ fl = <<>>
AddKnot(a, v) == /\ Len(aps) < MaxKnots /\ (IF Len(aps) = 0 THEN TRUE ELSE aps[Len(aps)] < a)
                 /\ aps' = Append(aps, a) /\ fl' = Append(fl, v)
Next == \E a \in Radii, v \in Vals : AddKnot(a, v)
Spec == Init /\ [][Next]_vars
Ready == Len(aps) >= 2
SigmaInv == Ready => \A f \in Fracs : SigmaRadiusIsOutermostCrossing(R(f[1], f[2]))
CumulInv == Ready => \A f \in Fracs : CumulRadiusContainsFraction(R(f[1], f[2]))
EmitInv == Ready => PrintT(ToJson([aps |-> aps, fl |-> fl,
                                   sigma |-> [f \in Fracs |-> RadiusSigma(R(f[1], f[2]))],
                                   cumul |-> [f \in Fracs |-> RadiusCumul(R(f[1], f[2]))]]))
=============================================================================
