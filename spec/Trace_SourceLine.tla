--------------------------- MODULE Trace_SourceLine ---------------------------
(* Recorded Source.from_ascii outcomes validated against SourceLine (C20).    *)
(* One trace = the lines of one data file read in order: the reader stops at  *)
(* the first line with fewer than three columns (event "Eof").                *)
EXTENDS SourceLine, TLC, Json, IOUtils, SequencesExt, FiniteSetsExt
Traces == JsonDeserialize(IOEnv.TRACE_FILE)
VARIABLES tid, l, ended, viol
vars == <<tid, l, ended, viol>>
Tr == Traces[tid]
Init == tid \in 1..Len(Traces) /\ l = 1 /\ ended = FALSE /\ viol = {}

Toks(cs) == [i \in 1..Len(cs) |-> [c |-> cs[i], p |-> i]]
\* an observed value is logged as the sequence of ALL token positions holding that value
In(p, cands) == \E i \in 1..Len(cands) : cands[i] = p
Match(obs, exp) == Len(obs) = Len(exp) /\ \A i \in 1..Len(exp) : In(exp[i].p, obs[i])
EvParse == /\ l <= Len(Tr) /\ Tr[l].ev = "Parse"
           /\ LET e == Tr[l]
                  r == ParseAlg(Toks(e.cols))
              IN  /\ viol' = viol
                       \cup (IF ended THEN {<<l, "read.after.eof">>} ELSE {})
                       \cup (IF e.k = r.k THEN {} ELSE {<<l, "parse.outcome">>})
                       \cup (IF e.k = "ok" /\ r.k = "ok" THEN
                                (IF In(r.name.p, e.name) THEN {} ELSE {<<l, "parse.name">>})
                           \cup (IF In(r.x.p, e.x) /\ In(r.y.p, e.y) THEN {} ELSE {<<l, "parse.xy">>})
                           \cup (IF Match(e.valid, r.valid) THEN {} ELSE {<<l, "parse.flags">>})
                           \cup (IF Match(e.flux, r.flux) THEN {} ELSE {<<l, "parse.flux">>})
                           \cup (IF Match(e.err, r.err) THEN {} ELSE {<<l, "parse.error">>})
                           \cup (IF e.roundtrip = 1 THEN {} ELSE {<<l, "format.roundtrip">>})
                             ELSE {})
                  /\ ended' = (ended \/ r.k = "eof")
           /\ l' = l + 1 /\ UNCHANGED tid
EvBad == /\ l <= Len(Tr) /\ Tr[l].ev # "Parse"
         /\ viol' = viol \cup {<<l, "unknown.event">>} /\ l' = l + 1 /\ UNCHANGED <<tid, ended>>
Done == /\ l = Len(Tr) + 1
        /\ PrintT(ToJson([tid |-> tid, ok |-> (viol = {}), viol |-> SetToSeq(viol)]))
        /\ l' = l + 1 /\ UNCHANGED <<tid, ended, viol>>
Next == EvParse \/ EvBad \/ Done
Spec == Init /\ [][Next]_vars
=============================================================================
