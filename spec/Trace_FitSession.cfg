SPECIFICATION TSpec
CONSTANTS
  Pool <- TWPool
  Grid <- TWGrid
  KPat <- TWK
  U <- TWU
  Unit <- TWUnit
  MaxLines = 100
  NMins = {2}
  OutSels = {}
  PostSels = {}
  Forms = {"path", "obj", "list"}
  Kinds = {"write_parameters", "write_parameter_ranges", "extract_parameters"}
  MaxPosts = 1000
  SplitThr = {}
CHECK_DEADLOCK FALSE
