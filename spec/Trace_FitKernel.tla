--------------------------- MODULE Trace_FitKernel ---------------------------
(* Validation of recorded Fitter.fit() calls (aperture-independent packages)  *)
(* against FitKernel: C01, C03, C04, C11.  One trace = a history of fits on   *)
(* ONE fitter (first event "Load"); the spec state is the fitter, every Fit   *)
(* event must be explained by it alone (history freedom).                      *)
EXTENDS FitKernel, TLC, Json, IOUtils, SequencesExt, FiniteSetsExt
Traces == JsonDeserialize(IOEnv.TRACE_FILE)
VARIABLES tid, l, fitter, viol
vars == <<tid, l, fitter, viol>>
Tr == Traces[tid]
Null == [loaded |-> FALSE]

Init == /\ tid \in 1..Len(Traces) /\ l = 1 /\ fitter = Null /\ viol = {}

EvLoad == /\ l <= Len(Tr) /\ Tr[l].ev = "Load"
          /\ fitter' = [loaded |-> TRUE, K |-> Tr[l].K, ulo |-> Tr[l].ulo, uhi |-> Tr[l].uhi,
                        grid |-> Tr[l].grid]
          /\ viol' = viol /\ l' = l + 1 /\ UNCHANGED tid

\* numeric order on normalised 7-digit renderings <<M, e>> of non-negative floats
ObsLe(a, b) == \/ a[1] = 0
               \/ (b[1] # 0 /\ (a[2] < b[2] \/ (a[2] = b[2] /\ a[1] <= b[1])))

RowClauses(src, rows, i) ==
  LET o == rows[i]
      m == o.m
      r == FitIndep(src, fitter.grid[m], fitter.K, fitter.ulo, fitter.uhi)
  IN  (IF o.id = m - 1 THEN {} ELSE {<<l, "row.model_id">>})
 \cup (IF o.nan = 1 THEN {<<l, "row.nan">>}
       ELSE (IF Close(o.av, RDiv(r.u, RInt(4))) THEN {} ELSE {<<l, "row.av">>})
       \cup (IF Close(o.sc, RDiv(r.v, RInt(40))) THEN {} ELSE {<<l, "row.sc">>})
       \cup (IF r.boundary THEN {}
             ELSE IF r.big > 0 THEN (IF o.big = r.big THEN {} ELSE {<<l, "row.chi2.big">>})
             ELSE IF o.big = 0 /\ Close(o.chi, r.chi) THEN {} ELSE {<<l, "row.chi2">>})
       \cup (IF o.haspred = 0 \/ \A j \in 1..Len(o.pred) : Close(o.pred[j], RDiv(r.pred20[j], RInt(20)))
             THEN {} ELSE {<<l, "row.pred">>}))

EvFit == /\ l <= Len(Tr) /\ Tr[l].ev = "Fit" /\ fitter.loaded
         /\ LET e == Tr[l]
                src == [flag |-> e.flag, Y |-> e.Y, W |-> e.W, P |-> e.P]
                rows == e.rows
                nm == Len(fitter.grid)
            IN  viol' = viol
                 \cup (IF Len(rows) = nm /\ {rows[i].m : i \in 1..Len(rows)} = 1..nm THEN {} ELSE {<<l, "fit.not_each_model_once">>})
                 \cup (IF e.ndata = NData(src) THEN {} ELSE {<<l, "fit.n_data">>})
                 \cup (IF Singular(src, fitter.K) THEN {}
                       ELSE UNION {RowClauses(src, rows, i) : i \in 1..Len(rows)}
                            \cup (IF \A i \in 1..(Len(rows) - 1) :
                                        \/ rows[i].big < rows[i + 1].big
                                        \/ (rows[i].big = rows[i + 1].big /\ (rows[i].big > 0 \/ ObsLe(rows[i].chi, rows[i + 1].chi)))
                                  THEN {} ELSE {<<l, "fit.not_ranked">>}))
         /\ l' = l + 1 /\ UNCHANGED <<tid, fitter>>

EvBad == /\ l <= Len(Tr) /\ ~(Tr[l].ev = "Load") /\ ~(Tr[l].ev = "Fit" /\ fitter.loaded)
         /\ viol' = viol \cup {<<l, "unknown.event">>} /\ l' = l + 1 /\ UNCHANGED <<tid, fitter>>

Done == /\ l = Len(Tr) + 1
        /\ PrintT(ToJson([tid |-> tid, ok |-> (viol = {}), viol |-> SetToSeq(viol)]))
        /\ l' = l + 1 /\ UNCHANGED <<tid, fitter, viol>>
Next == EvLoad \/ EvFit \/ EvBad \/ Done
Spec == Init /\ [][Next]_vars
=============================================================================
