-------------------------------- MODULE Plot --------------------------------
(***************************************************************************)
(* C17.  What plot(..., output_dir=None) returns for one source: a         *)
(* collection of curves.  For the selected fits n, n-1, ..., 1 (the best   *)
(* fit is drawn last) the display mode decides which aperture(s) each      *)
(* fit's SED is shown for:                                                 *)
(*   interp            1 curve: at each filter wavelength the filter's own *)
(*                     aperture (interpolated in between)                  *)
(*   largest           1 curve: the largest filter aperture                *)
(*   largest+smallest  2 curves: smallest, then largest                    *)
(*   all               1 curve per distinct filter aperture, increasing    *)
(* A curve of fit i passes through the predicted flux of filter f iff it   *)
(* is shown for f's aperture.  Filter apertures are small integers.        *)
(***************************************************************************)
EXTENDS Integers, Sequences, FiniteSets, TLC, Json
CONSTANTS MaxFits
VARIABLES st
ApPatterns == {<<3, 3, 3>>, <<1, 2, 2>>, <<1, 2, 3>>, <<2, 1, 3>>, <<5, 5, 1>>}
Modes == {"interp", "largest", "largest+smallest", "all"}
Init == st \in [nsel : 1..MaxFits, mode : Modes, aps : ApPatterns, multi : BOOLEAN, form : {"obj", "file"}]
Spec == Init /\ [][UNCHANGED st]_st

SetMax(S) == CHOOSE x \in S : \A y \in S : y <= x
SetMin(S) == CHOOSE x \in S : \A y \in S : x <= y
Uniq(aps) == {aps[i] : i \in 1..Len(aps)}
RECURSIVE SortedSeq(_)
SortedSeq(S) == IF S = {} THEN <<>> ELSE <<SetMin(S)>> \o SortedSeq(S \ {SetMin(S)})
\* apertures shown per fit; 0 stands for "each filter's own aperture" (the composite curve)
Shown(mode, aps) == CASE mode = "interp" -> <<0>>
                      [] mode = "largest" -> <<SetMax(Uniq(aps))>>
                      [] mode = "largest+smallest" -> <<SetMin(Uniq(aps)), SetMax(Uniq(aps))>>
                      [] mode = "all" -> SortedSeq(Uniq(aps))
\* ALGORITHM LAYER: for i in range(n_fits - 1, -1, -1): for j in range(n_curves): lines.append(...)
RECURSIVE DrawFrom(_, _)
DrawFrom(rank, shown) == IF rank = 0 THEN <<>>
                         ELSE [j \in 1..Len(shown) |-> [rank |-> rank, ap |-> shown[j]]] \o DrawFrom(rank - 1, shown)
Curves == DrawFrom(st.nsel, Shown(st.mode, st.aps))
\* PROPERTY LAYER
CurveCount == Len(Curves) = st.nsel * (CASE st.mode = "interp" -> 1 [] st.mode = "largest" -> 1
                                         [] st.mode = "largest+smallest" -> 2 [] st.mode = "all" -> Cardinality(Uniq(st.aps)))
BestLast == /\ Curves[Len(Curves)].rank = 1
            /\ \A a, b \in 1..Len(Curves) : a < b => Curves[a].rank >= Curves[b].rank
EveryFitShown == \A r \in 1..st.nsel : \E c \in 1..Len(Curves) : Curves[c].rank = r
\* every fitted point has a curve through it, except in the modes that show only extreme apertures
PassesThroughPred == \A r \in 1..st.nsel : \A f \in 1..Len(st.aps) :
                        (st.mode \in {"interp", "all"} \/ st.aps[f] = SetMax(Uniq(st.aps)))
                          => \E c \in 1..Len(Curves) : Curves[c].rank = r /\ (Curves[c].ap = 0 \/ Curves[c].ap = st.aps[f])
EmitInv == PrintT(ToJson([st |-> st, curves |-> Curves]))
=============================================================================
