------------------------------ MODULE Extinction ------------------------------
(***************************************************************************)
(* C14.  An extinction law is an opacity table chi(lambda) in increasing   *)
(* wavelength; the per-magnitude pattern is                                *)
(*     k(lambda) = -0.4 * chi(lambda) / chi(0.55 micron)                   *)
(* with chi linearly interpolated, 0 outside the table.  Wavelengths are   *)
(* integers in units of 1/40 micron (V = 22), opacities positive integers. *)
(* The law object goes through representation changes (pickle, table,      *)
(* text file, unit changes) that must all be the identity on the function. *)
(***************************************************************************)
EXTENDS ExtinctionLaw, TLC, Json
CONSTANTS Nodes,      \* candidate wavelengths (increasing order is enforced)
          Opac,       \* candidate opacities
          Queries,    \* query wavelengths
          MaxNodes, MaxConv, SampleMod, SampleRes
VARIABLES tab,        \* [w |-> Seq(Int), c |-> Seq(Int)]
          phase,      \* "build" | "use"
          rep,        \* current representation of the law object
          convs       \* history of conversions applied
vars == <<tab, phase, rep, convs>>
Init == tab = [w |-> <<>>, c |-> <<>>] /\ phase = "build" /\ rep = "object" /\ convs = <<>>
AddNode(w, c) == /\ phase = "build" /\ Len(tab.w) < MaxNodes
                 /\ (IF Len(tab.w) = 0 THEN TRUE ELSE tab.w[Len(tab.w)] < w)
                 /\ tab' = [w |-> Append(tab.w, w), c |-> Append(tab.c, c)]
                 /\ UNCHANGED <<phase, rep, convs>>
Seal == phase = "build" /\ Covers(tab) /\ phase' = "use" /\ UNCHANGED <<tab, rep, convs>>
\* representation changes: identity on the table
Convs == {"pickle", "table", "file", "file_cols", "file_units", "units_nm_si", "units_cm", "scale3", "scale_third"}
Convert(k) == /\ phase = "use" /\ Len(convs) < MaxConv
              /\ convs' = Append(convs, k) /\ rep' = k
              /\ UNCHANGED <<tab, phase>>
Next == (\E w \in Nodes, c \in Opac : AddNode(w, c)) \/ Seal \/ (\E k \in Convs : Convert(k))
Spec == Init /\ [][Next]_vars

(* C14 *)
Use == phase = "use" /\ convs = <<>>      \* conversions leave tab unchanged (TableNeverChanges): evaluate once
ExactAtV     == Use => GetAv(tab, V) = R(-2, 5)
ZeroOutside  == Use => \A q \in Queries : (q < tab.w[1] \/ q > tab.w[Len(tab.w)]) => GetAv(tab, q) = Zero
ScaleInvariant == Use => \A s \in {2, 3, 7} : \A q \in Queries :
                    GetAv([tab EXCEPT !.c = [i \in 1..Len(tab.c) |-> s * tab.c[i]]], q) = GetAv(tab, q)
AtNodes == Use => \A i \in 1..Len(tab.w) : GetAv(tab, tab.w[i]) = RMul(R(-2, 5), RDiv(RInt(tab.c[i]), Eval(F(tab), RInt(V))))
NonPositive == Use => \A q \in Queries : RSign(GetAv(tab, q)) <= 0
TableNeverChanges == [][phase = "use" => tab' = tab]_vars

RECURSIVE Sum(_)
Sum(s) == IF s = <<>> THEN 0 ELSE Head(s) + Sum(Tail(s))
Checksum == Sum([i \in 1..Len(tab.w) |-> tab.w[i] * 3 + tab.c[i] * 7 * i]) + Len(convs) * 11
EmitInv == (phase = "use" /\ Len(convs) = MaxConv /\ Checksum % SampleMod = SampleRes) =>
             PrintT(ToJson([w |-> tab.w, c |-> tab.c, convs |-> convs,
                            q |-> [x \in Queries |-> GetAv(tab, x)]]))
=============================================================================
