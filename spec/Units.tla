-------------------------------- MODULE Units --------------------------------
(***************************************************************************)
(* C15.  Flux unit conversion of SED.read (helpers.convert_flux) as an     *)
(* exponent algebra: every quantity is a power of ten.  A cell holds       *)
(* 10^p in unit u; the frequency of the cell is 10^k Hz, the SED distance  *)
(* 10^j cm.  Conversion goes through erg/cm^2/s:                           *)
(*   Jy, mJy    (F_nu type):   F = nu * F_nu                               *)
(*   erg/cm2/s, W/m2 (nu F_nu type)                                        *)
(*   erg/s      (luminosity):  L = F * d^2                                 *)
(* anything else is refused.                                               *)
(***************************************************************************)
EXTENDS Integers, Sequences, TLC, Json
CONSTANTS Ps, Ks, Js, MaxHops
UnitsOK == {"mJy", "Jy", "erg/cm2/s", "W/m2", "erg/s"}
AllUnits == UnitsOK \cup {"K"}
\* log10 of the value in erg/cm^2/s
ToBase(u, p, k, j) == CASE u = "Jy" -> p + k - 23 [] u = "mJy" -> p + k - 26
                        [] u = "erg/cm2/s" -> p [] u = "W/m2" -> p + 3 [] u = "erg/s" -> p - 2 * j
FromBase(v, b, k, j) == CASE v = "Jy" -> b - k + 23 [] v = "mJy" -> b - k + 26
                          [] v = "erg/cm2/s" -> b [] v = "W/m2" -> b - 3 [] v = "erg/s" -> b + 2 * j
Refused(u, v) == u \notin UnitsOK \/ v \notin UnitsOK
Convert(u, v, p, k, j) == FromBase(v, ToBase(u, p, k, j), k, j)

VARIABLES unit, p, k, j, hops
vars == <<unit, p, k, j, hops>>
Init == unit \in UnitsOK /\ p \in Ps /\ k \in Ks /\ j \in Js /\ hops = <<[to |-> unit, p |-> p]>>
\* write in the current unit, read in another: a supported target converts, an unsupported one is refused
Hop(v) == /\ Len(hops) < MaxHops + 1 /\ v \in UnitsOK
          /\ p' = Convert(unit, v, p, k, j) /\ unit' = v
          /\ hops' = Append(hops, [to |-> v, p |-> p'])
          /\ UNCHANGED <<k, j>>
Next == \E v \in UnitsOK : Hop(v)
Spec == Init /\ [][Next]_vars

(* C15 *)
RoundTrip == \A u \in UnitsOK, v \in UnitsOK, pp \in Ps : Convert(v, u, Convert(u, v, pp, k, j), k, j) = pp
PathIndependent == \A u \in UnitsOK, v \in UnitsOK, w \in UnitsOK, pp \in Ps :
                      Convert(v, w, Convert(u, v, pp, k, j), k, j) = Convert(u, w, pp, k, j)
FamilyRelations == \A pp \in Ps : /\ Convert("Jy", "erg/cm2/s", pp, k, j) = pp + k - 23          \* F = nu F_nu
                                  /\ Convert("erg/cm2/s", "erg/s", pp, k, j) = pp + 2 * j           \* L = F d^2
                                  /\ Convert("mJy", "Jy", pp, k, j) = pp - 3
                                  /\ Convert("W/m2", "erg/cm2/s", pp, k, j) = pp + 3
\* after any chain of hops the value only depends on the first and the current unit
ChainIsDirect == p = Convert(hops[1].to, unit, hops[1].p, k, j)
EmitInv == Len(hops) = MaxHops + 1 => PrintT(ToJson([k |-> k, j |-> j, hops |-> hops]))
=============================================================================
