------------------------------- MODULE UtilNum -------------------------------
(***************************************************************************)
(* X04 (extension).  sedfitter/utils/interpolate.py (check_bounds +        *)
(* interp1d_fast) and sedfitter/utils/integrate.py (integrate_subset,      *)
(* integrate), the numeric helpers under Filter.rebin / Filter.normalize.  *)
(*                                                                         *)
(* ALGORITHM LAYER: the code line by line, with Python's index semantics   *)
(* (0-based, negative indices wrap, slices clip) and np.searchsorted       *)
(* (side='left').  PROPERTY LAYER: PwLin's exact evaluation / integral.    *)
(* TLC checks that the two agree for every table within the constants and  *)
(* every query / window on the half-integer lattice, with x stored in      *)
(* either order for integrate_subset.  Deliberate behaviours of the code   *)
(* are named: ScalarIgnoresFill, EmptyWindowIsZeroEvenOutside.             *)
(***************************************************************************)
EXTENDS PwLin, TLC, Json, FiniteSets
CONSTANTS XNodes, YVals, YOff, MaxN, Q2Lo, Q2Hi, SampleMod, SampleRes
VARIABLES xs, ys, phase
vars == <<xs, ys, phase>>

Init == xs = <<>> /\ ys = <<>> /\ phase = "build"
AddNode(x, y) == /\ phase = "build" /\ Len(xs) < MaxN
                 /\ (IF Len(xs) = 0 THEN TRUE ELSE xs[Len(xs)] < x)
                 /\ xs' = Append(xs, x) /\ ys' = Append(ys, y - YOff) /\ UNCHANGED phase
Seal == phase = "build" /\ Len(xs) >= 2 /\ phase' = "ready" /\ UNCHANGED <<xs, ys>>
Next == (\E x \in XNodes, y \in YVals : AddNode(x, y)) \/ Seal
Spec == Init /\ [][Next]_vars
Ready == phase = "ready"

(* ---------------- Python sequences ---------------- *)
Rev(s) == [i \in 1..Len(s) |-> s[Len(s) + 1 - i]]
NormIdx(i, n) == IF i < 0 THEN (IF i + n < 0 THEN 0 ELSE i + n) ELSE (IF i > n THEN n ELSE i)
PySlice(s, a, b) == LET na == NormIdx(a, Len(s))  nb == NormIdx(b, Len(s))
                    IN  IF nb <= na THEN <<>> ELSE SubSeq(s, na + 1, nb)
\* python s[i] for -len <= i < len
PyAt(s, i) == IF i >= 0 THEN s[i + 1] ELSE s[Len(s) + i + 1]
PyOk(s, i) == (i >= 0 /\ i < Len(s)) \/ (i < 0 /\ -i <= Len(s))
SearchLeft(x, q) == Cardinality({i \in 1..Len(x) : RLt(x[i], q)})

Val(v) == [k |-> "val", v |-> v]
Err == [k |-> "err", v |-> Zero]
NaN == [k |-> "nan", v |-> Zero]
Fill == [k |-> "fill", v |-> Zero]

(* ---------------- interp1d_fast ---------------- *)
\* the undecorated function: indices ipos-1 and ipos, PYTHON semantics (ipos = 0 wraps to the last element)
InterpCore(x, y, q) ==
  LET ipos == SearchLeft(x, q) IN
  IF Len(x) # Len(y) \/ ~PyOk(x, ipos) \/ ~PyOk(x, ipos - 1) THEN Err
  ELSE LET x0 == PyAt(x, ipos - 1)  x1 == PyAt(x, ipos)  y0 == PyAt(y, ipos - 1)  y1 == PyAt(y, ipos)
       IN  IF x0 = x1 THEN NaN
           ELSE Val(RAdd(RMul(RDiv(RSub(q, x0), RSub(x1, x0)), RSub(y1, y0)), y0))
\* check_bounds.__call__, scalar xval
InterpScalar(x, y, q, be) ==
  IF Len(x) = 0 THEN Err
  ELSE IF RLt(q, x[1]) \/ RLt(x[Len(x)], q) THEN (IF be THEN Err ELSE NaN)
  ELSE InterpCore(x, y, q)
\* check_bounds.__call__, array xval (fill = the symbolic fill value)
InterpArray(x, y, qs, be) ==
  LET inside(i) == RLe(x[1], qs[i]) /\ RLe(qs[i], x[Len(x)])
  IN  IF \E i \in 1..Len(qs) : ~inside(i)
      THEN (IF be THEN <<Err>> ELSE [i \in 1..Len(qs) |-> IF inside(i) THEN InterpCore(x, y, qs[i]) ELSE Fill])
      ELSE [i \in 1..Len(qs) |-> InterpCore(x, y, qs[i])]

\* property layer
F(x, y) == [x |-> x, y |-> y]
InterpDecl(x, y, q, be) == IF InDomain(F(x, y), q) THEN Val(Eval(F(x, y), q)) ELSE IF be THEN Err ELSE Fill

(* ---------------- integrate / integrate_subset ---------------- *)
RECURSIVE Trapz(_, _)
Trapz(x, y) == IF Len(x) < 2 THEN Zero
               ELSE RAdd(Trap(x[1], y[1], x[2], y[2]), Trapz(Tail(x), Tail(y)))
IntSub(x0, y0, a0, b0) ==
  LET rev == RLt(x0[Len(x0)], x0[1])
      x == IF rev THEN Rev(x0) ELSE x0
      y == IF rev THEN Rev(y0) ELSE y0
      a == IF RLt(b0, a0) THEN b0 ELSE a0
      b == IF RLt(b0, a0) THEN a0 ELSE b0
  IN  IF a0 = b0 THEN Val(Zero)
      ELSE LET i1 == IF a = x[1] THEN 1 ELSE SearchLeft(x, a)
               ymin == IF a = x[1] THEN Val(y[1]) ELSE InterpScalar(PySlice(x, i1 - 1, i1 + 1), PySlice(y, i1 - 1, i1 + 1), a, TRUE)
               i2 == IF b = x[Len(x)] THEN -1 ELSE SearchLeft(x, b)
               ymax == IF b = x[Len(x)] THEN Val(y[Len(y)]) ELSE InterpScalar(PySlice(x, i2 - 1, i2 + 1), PySlice(y, i2 - 1, i2 + 1), b, TRUE)
           IN  IF ymin.k # "val" \/ ymax.k # "val" THEN Err
               ELSE Val(Trapz(<<a>> \o PySlice(x, i1, i2) \o <<b>>, <<ymin.v>> \o PySlice(y, i1, i2) \o <<ymax.v>>))
IntSubDecl(x, y, a0, b0) ==
  LET a == RMin(a0, b0)  b == RMax(a0, b0)
  IN  IF a0 = b0 THEN Val(Zero)
      ELSE IF InDomain(F(x, y), a) /\ InDomain(F(x, y), b) THEN Val(IntegralBetween(F(x, y), a, b))
      ELSE Err

(* ---------------- instance ---------------- *)
X == [i \in 1..Len(xs) |-> RInt(xs[i])]
Y == [i \in 1..Len(ys) |-> RInt(ys[i])]
Q2 == Q2Lo..Q2Hi
Q(q2) == R(q2, 2)
NQ == Q2Hi - Q2Lo + 1
QI(i) == Q(Q2Lo + i - 1)

\* X04 theorems
InterpMatches == Ready => \A q2 \in Q2, be \in BOOLEAN :
                   LET alg == InterpScalar(X, Y, Q(q2), be)  decl == InterpDecl(X, Y, Q(q2), be)
                   IN  IF decl.k = "fill" THEN alg.k = "nan" ELSE alg = decl
\* named deviation: a scalar query outside the table with bounds_error=False returns NaN whatever fill_value is;
\* the array form returns fill_value
ScalarIgnoresFill == Ready => \A q2 \in Q2 : ~InDomain(F(X, Y), Q(q2)) =>
                       (InterpScalar(X, Y, Q(q2), FALSE).k = "nan" /\ InterpArray(X, Y, <<Q(q2)>>, FALSE)[1].k = "fill")
ArrayIsPointwise == Ready => \A q2 \in Q2, r2 \in {Q2Lo, Q2Lo + 3, Q2Hi} :
                      LET qs == <<Q(q2), Q(r2)>>  res == InterpArray(X, Y, qs, FALSE)
                      IN  \A i \in 1..2 : res[i] = InterpDecl(X, Y, qs[i], FALSE)
ArrayRefusesAnyOutside == Ready => \A q2 \in Q2, r2 \in {Q2Lo, Q2Lo + 3, Q2Hi} :
                      LET qs == <<Q(q2), Q(r2)>>
                      IN  (InterpArray(X, Y, qs, TRUE) = <<Err>>) <=> (\E i \in 1..2 : ~InDomain(F(X, Y), qs[i]))
\* the first knot is reached through Python's wrap-around index -1 and still evaluates exactly
FirstKnotExact == Ready => InterpScalar(X, Y, X[1], TRUE) = Val(Y[1])
IntSubMatches == Ready => \A a2 \in Q2, b2 \in Q2 :
                   /\ IntSub(X, Y, Q(a2), Q(b2)) = IntSubDecl(X, Y, Q(a2), Q(b2))
                   /\ IntSub(Rev(X), Rev(Y), Q(a2), Q(b2)) = IntSubDecl(X, Y, Q(a2), Q(b2))
IntSubSymmetric == Ready => \A a2 \in Q2, b2 \in Q2 : IntSub(X, Y, Q(a2), Q(b2)) = IntSub(X, Y, Q(b2), Q(a2))
IntSubAdditive == Ready => \A a2 \in Q2, b2 \in Q2, c2 \in Q2 :
                   (a2 <= b2 /\ b2 <= c2 /\ IntSub(X, Y, Q(a2), Q(c2)).k = "val") =>
                      IntSub(X, Y, Q(a2), Q(c2)).v = RAdd(IntSub(X, Y, Q(a2), Q(b2)).v, IntSub(X, Y, Q(b2), Q(c2)).v)
\* named: an empty window returns 0 before any bounds check
EmptyWindowIsZeroEvenOutside == Ready => \A a2 \in Q2 : IntSub(X, Y, Q(a2), Q(a2)) = Val(Zero)
WholeIsIntegral == Ready => Trapz(X, Y) = Integral(F(X, Y))

RECURSIVE Sum(_)
Sum(s) == IF s = <<>> THEN 0 ELSE Head(s) + Sum(Tail(s))
Checksum == Sum([i \in 1..Len(xs) |-> xs[i] * (2 * i + 1) + (ys[i] + YOff) * 5 * i])
EmitInv == (Ready /\ Checksum % SampleMod = SampleRes) =>
   PrintT(ToJson([x |-> xs, y |-> ys, q2lo |-> Q2Lo,
                  interp |-> [i \in 1..NQ |-> InterpScalar(X, Y, QI(i), TRUE)],
                  interp_nb |-> [i \in 1..NQ |-> InterpArray(X, Y, <<QI(i), X[1]>>, FALSE)[1]],
                  intsub |-> [i \in 1..NQ |-> [j \in 1..NQ |-> IntSub(X, Y, QI(i), QI(j))]],
                  whole |-> Trapz(X, Y)]))
=============================================================================
