SPECIFICATION Spec
CONSTANTS
  MaxOps = 3
INVARIANT LengthsAgree
INVARIANT FlagsLegal
INVARIANT SourceAcceptance
INVARIANT FluxNeedsNames
INVARIANT AxisLengthsAgree
INVARIANT SedFluxNeedsAxis
INVARIANT EmitInv
PROPERTY RefusedIsNoop
PROPERTY ShapeConsistentUnlessDimsReset
CHECK_DEADLOCK FALSE
