------------------------------ MODULE SortMatch ------------------------------
(***************************************************************************)
(* X10 (extension).  ConvolvedFluxes.sort_to_match (through which every    *)
(* convolved-flux file is aligned with the parameter table or with the     *)
(* first filter read) and utils/misc.order_to_match.  One call is one      *)
(* step: (model_names of the object, requested names) -> outcome and the   *)
(* new row order.  Rows are tokens: row i of the object before the call is *)
(* the token i, so "the flux stayed with its model" is checkable.          *)
(* ALGORITHM LAYER = argsort(array)[argsort(argsort(reference))] with      *)
(* numpy's index semantics and the "double check" that follows.            *)
(* PROPERTY LAYER = what a caller may rely on.  Named behaviours:          *)
(* SilentTruncation (a SHORTER request that happens to name the smallest   *)
(* names in their sorted positions is accepted and the other models are    *)
(* dropped without a word), LongerIsIndexError (a longer request never     *)
(* reaches the "Sorting failed" test: it dies on the index),               *)
(* OwnNamesNotStripped (only the request is stripped of trailing blanks).  *)
(***************************************************************************)
EXTENDS Integers, Sequences, FiniteSets, TLC, Json
CONSTANTS MaxLen, NNames
NameIds == 1..NNames
SeqsOf(n) == [1..n -> NameIds]
VARIABLES call
Init == \E n \in 1..MaxLen, m \in 1..MaxLen : call \in [names : SeqsOf(n), req : SeqsOf(m)]
Spec == Init /\ [][UNCHANGED call]_call

\* ALGORITHM: a stable argsort (numpy sorts fewer than 17 entries by insertion, which is stable)
ArgSort(s) == CHOOSE p \in [1..Len(s) -> 1..Len(s)] :
                 \A i, j \in 1..Len(s) : i < j => \/ s[p[i]] < s[p[j]]
                                                  \/ (s[p[i]] = s[p[j]] /\ p[i] < p[j])
A == ArgSort(call.names)
R == ArgSort(ArgSort(call.req))          \* the rank of every requested name among the requested names
OutOfRange == \E i \in 1..Len(call.req) : R[i] > Len(call.names)
Order == [i \in 1..Len(call.req) |-> A[R[i]]]
Outcome == IF OutOfRange THEN "IndexError"
           ELSE IF \A i \in 1..Len(call.req) : call.names[Order[i]] = call.req[i] THEN "ok"
           ELSE "Exception"
NewNames == IF Outcome = "ok" THEN [i \in 1..Len(call.req) |-> call.names[Order[i]]] ELSE call.names
NewRows  == IF Outcome = "ok" THEN Order ELSE [i \in 1..Len(call.names) |-> i]

\* PROPERTY LAYER
Count(s, x) == Cardinality({i \in 1..Len(s) : s[i] = x})
SameBag(s, t) == \A x \in NameIds : Count(s, x) = Count(t, x)
\* after an accepted call the names read as requested and every row is still the row of the model whose name it sits under
OkMeansAligned == Outcome = "ok" => /\ NewNames = call.req
                                    /\ \A i \in 1..Len(NewRows) : call.names[NewRows[i]] = call.req[i]
                                    /\ \A i, j \in 1..Len(NewRows) : NewRows[i] = NewRows[j] => i = j   \* no row used twice
\* a request that names exactly the models of the object (in any order, duplicates included) is never refused, and loses no row
PermutationAccepted == SameBag(call.names, call.req) =>
                         /\ Outcome = "ok"
                         /\ {NewRows[i] : i \in 1..Len(NewRows)} = 1..Len(call.names)
\* a request of the same length that does not name exactly the models is refused ("Sorting failed"), and the object is untouched
SameLengthStrangerRefused == (Len(call.req) = Len(call.names) /\ ~SameBag(call.names, call.req)) =>
                               /\ Outcome = "Exception"
                               /\ NewNames = call.names
LongerIsIndexError == Len(call.req) > Len(call.names) <=> Outcome = "IndexError"
\* models with the same name keep the order they had in the file (stability)
DuplicatesKeepFileOrder == Outcome = "ok" => \A i, j \in 1..Len(NewRows) : (i < j /\ call.req[i] = call.req[j]) => NewRows[i] < NewRows[j]
\* reachability of the named behaviour (negated in MC_SortMatch_reach.cfg)
NoTruncation == Outcome = "ok" => Len(call.req) = Len(call.names)
\* ... and exactly when it happens: the request lists, each in its sorted position, the k smallest names of the object
TruncationOnlyOfSmallest == (Outcome = "ok" /\ Len(call.req) < Len(call.names)) =>
                              \A i \in 1..Len(call.req) : call.req[i] = call.names[A[R[i]]]
\* named behaviour OwnNamesNotStripped: only the REQUEST is stripped of trailing blanks; an object whose own names carry them (a file
\* read with ConvolvedFluxes.read and not through Models) is refused whatever is asked of it, because 'ma  ' = 'ma' is false
OutcomePaddedObject == IF OutOfRange THEN "IndexError" ELSE "Exception"
PaddedObjectNeverAccepted == OutcomePaddedObject # "ok"
EmitInv == PrintT(ToJson([names |-> call.names, req |-> call.req, out |-> Outcome, out_padded_obj |-> OutcomePaddedObject, new_names |-> NewNames, new_rows |-> NewRows]))
=============================================================================
