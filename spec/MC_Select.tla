----------------------------- MODULE MC_Select -----------------------------
(* State machine of a FitInfo object under successive keep() calls (C05).    *)
EXTENDS Select, TLC, Json, SequencesExt
CONSTANTS MaxLen,     \* ranked vectors of length 0..MaxLen are enumerated exhaustively
          MaxKeeps,   \* length of keep() histories explored
          Emit        \* TRUE: print one behaviour table per initial state (Gen config)
VARIABLES rows,       \* Seq of [id, chi]: the per-fit arrays, cut alike
          nd,         \* n_data of the source (flags 1 and 4)
          phase,      \* "build": the ranked result is being produced; "keep": selection calls
          hist        \* history of keep calls (hidden from the fingerprint by VIEW)
vars == <<rows, nd, phase, hist>>
view == <<rows, nd, phase, Len(hist)>>

Alphabet == {Fin(0), Fin(4), Fin(10), Fin(28), Big(1), Big(2), Inf, NaN}
ThrSeq   == <<Fin(-1), Fin(1), Fin(4), Fin(5), Fin(13), Fin(29), BigH(0), BigH(1), Inf>>
FormSeq  == <<"C", "D", "E", "F">>
SelSeq   == <<[f |-> "A", v |-> 0]>>
            \o [n \in 1..(MaxLen + 2) |-> [f |-> "N", v |-> n - 1]]
            \o [i \in 1..(Len(FormSeq) * Len(ThrSeq)) |->
                  [f |-> FormSeq[((i - 1) \div Len(ThrSeq)) + 1], v |-> ThrSeq[((i - 1) % Len(ThrSeq)) + 1]]]
Selectors == {SelSeq[i] : i \in 1..Len(SelSeq)}

Chis(r) == [i \in 1..Len(r) |-> r[i].chi]

(* The ranked result is produced fit by fit (one TLC state per ranked vector of length      *)
(* 0..MaxLen: every non-decreasing sequence over Alphabet, NaN last), then sealed.          *)
Init == /\ rows = <<>>
        /\ nd \in 0..3
        /\ phase = "build"
        /\ hist = <<>>

Produce(c) == /\ phase = "build"
              /\ Len(rows) < MaxLen
              /\ Len(rows) > 0 => SortLe(rows[Len(rows)].chi, c)
              /\ rows' = Append(rows, [id |-> Len(rows) + 1, chi |-> c])
              /\ UNCHANGED <<nd, phase, hist>>
Seal == /\ phase = "build"
        /\ phase' = "keep"
        /\ UNCHANGED <<rows, nd, hist>>

Keep(sel) == /\ phase = "keep"
             /\ Len(hist) < MaxKeeps
             /\ \E n \in KeepCounts(Chis(rows), sel, nd) :
                   /\ rows' = Prefix(rows, n)
                   /\ hist' = Append(hist, [sel |-> sel, n |-> n])
             /\ UNCHANGED <<nd, phase>>
Next == \/ \E c \in Alphabet : Produce(c)
        \/ Seal
        \/ \E sel \in Selectors : Keep(sel)
Spec == Init /\ [][Next]_vars

----------------------------------------------------------------------------
(* Properties (C05).  nd = 0 (no fitted point: x/0) is kept in the algorithm layer with IEEE *)
(* rules but is outside the property: [Fin(0), Inf] with ('E', inf) keeps a non-satisfying fit. *)
TypeOK == /\ Ranked(Chis(rows))          \* keep never destroys the ranking
          /\ \A i \in 1..Len(rows) : rows[i].id = i

\* the kept fits are a prefix of the ranking, all arrays cut alike (rows are cut whole)
KeepIsPrefix == [][phase = "keep" => IsPrefix(rows', rows)]_vars

\* what the count-then-slice algorithm keeps is exactly what the syntax page promises
Promised == (nd >= 1 /\ phase = "keep") => \A sel \in Selectors :
               \A n \in KeepCounts(Chis(rows), sel, nd) :
                   ExactlyThePromised(Chis(rows), sel, nd, n)

\* selecting twice = selecting once (off the boundary)
Idempotent == (nd >= 1 /\ phase = "keep") => \A sel \in Selectors :
                 ~OnBoundary(Chis(rows), sel, nd) =>
                    LET n == CHOOSE k \in KeepCounts(Chis(rows), sel, nd) : TRUE
                    IN  KeepCounts(Chis(Prefix(rows, n)), sel, nd) = {n}

\* a looser selection first (ANY cut that keeps at least as many fits -- ('N', n1) realises
\* every n1) does not change what the tighter one keeps
LooserFirst == (nd >= 1 /\ phase = "keep") =>
               \A s2 \in Selectors :
                 ~OnBoundary(Chis(rows), s2, nd) =>
                    LET n2 == CHOOSE k \in KeepCounts(Chis(rows), s2, nd) : TRUE
                    IN  \A n1 \in n2..Len(rows) : KeepCounts(Chis(Prefix(rows, n1)), s2, nd) = {n2}

\* non-vacuity witnesses: some state must make each of these FALSE (checked by the harness
\* by running them as invariants expected to be violated is overkill; coverage counts are
\* read instead)

----------------------------------------------------------------------------
(* Behaviour emission: one line per initial state, the admissible counts of every      *)
(* selector.  A two-step behaviour keep(s1);keep(s2) is looked up by the harness in     *)
(* the line of the prefix vector (every prefix of a ranked vector is enumerated too).   *)
CountRange(c, sel) == LET K == KeepCounts(c, sel, nd)
                      IN <<CHOOSE a \in K : \A b \in K : a <= b, CHOOSE a \in K : \A b \in K : a >= b>>
EmitInv == (Emit /\ phase = "keep" /\ hist = <<>>) =>
             PrintT(ToJson([chis |-> Chis(rows), nd |-> nd,
                            cnt |-> [i \in 1..Len(SelSeq) |-> CountRange(Chis(rows), SelSeq[i])]]))
ASSUME Emit => PrintT(ToJson([selectors |-> SelSeq]))
=============================================================================
