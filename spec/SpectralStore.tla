---------------------------- MODULE SpectralStore ----------------------------
(***************************************************************************)
(* C12.  SED / SED-cube objects and files as layouts of opaque cells.      *)
(* The spectral axis of an object is a sequence of wavelength RANKS        *)
(* (1 = shortest wavelength); a cell token <<m, a, r>> names the value of  *)
(* model m, aperture a at the wavelength of rank r.  An object or file is  *)
(* WellFormed iff the token stored at spectral position p carries the rank *)
(* found at position p of the wavelength axis -- i.e. no value has been    *)
(* separated from its wavelength.  Writers and readers only permute.       *)
(***************************************************************************)
EXTENDS Integers, Sequences, TLC, Json
CONSTANTS NM, NA, NW, MaxOps
VARIABLES obj,      \* the in-memory object: [kind, wavs, cells, unc] or Null
          file,     \* the file last written: same shape, or Null
          hist
vars == <<obj, file, hist>>
Null == [kind |-> "none"]

Rev(s) == [i \in 1..Len(s) |-> s[Len(s) + 1 - i]]
Asc == [i \in 1..NW |-> i]
Cells(kind, wavs) == [m \in 1..(IF kind = "cube" THEN NM ELSE 1) |-> [a \in 1..NA |-> [p \in 1..NW |-> <<m, a, wavs[p]>>]]]
WellFormed(o) == o.kind = "none" \/
                 \A m \in DOMAIN o.cells : \A a \in DOMAIN o.cells[m] : \A p \in 1..NW :
                     o.cells[m][a][p][3] = o.wavs[p] /\ o.cells[m][a][p][2] = a
Permute(o, idx) == [o EXCEPT !.wavs = [p \in 1..NW |-> o.wavs[idx[p]]],
                             !.cells = [m \in DOMAIN o.cells |-> [a \in DOMAIN o.cells[m] |-> [p \in 1..NW |-> o.cells[m][a][idx[p]]]]]]
Reverse(o) == Permute(o, [p \in 1..NW |-> NW + 1 - p])
\* frequency increases when the rank decreases
FreqAscending(o) == o.wavs[1] > o.wavs[NW]
WavAscending(o)  == o.wavs[1] < o.wavs[NW]

Init == obj = Null /\ file = Null /\ hist = <<>>
Create(kind, axis, hasunc) ==
  /\ obj = Null /\ hist = <<>>
  /\ LET w == IF axis = "asc" THEN Asc ELSE Rev(Asc)
     IN  obj' = [kind |-> kind, wavs |-> w, cells |-> Cells(kind, w), unc |-> hasunc]
  /\ hist' = <<[op |-> "create", kind |-> kind, axis |-> axis, unc |-> hasunc]>>
  /\ UNCHANGED file
\* SED.write sorts the spectral table by frequency; the fluxes must follow.  A cube is stored as given.
Write == /\ obj # Null /\ Len(hist) < MaxOps
         /\ file' = IF obj.kind = "sed" /\ ~FreqAscending(obj) THEN Reverse(obj) ELSE obj
         /\ hist' = Append(hist, [op |-> "write"])
         /\ UNCHANGED obj
\* SED.read / SEDCube.read(order): everything spectral is reversed together when the stored order differs
Read(order) == /\ file # Null /\ Len(hist) < MaxOps
               /\ obj' = IF (order = "nu" /\ ~FreqAscending(file)) \/ (order = "wav" /\ ~WavAscending(file))
                         THEN Reverse(file) ELSE file
               /\ hist' = Append(hist, [op |-> "read", order |-> order, wavs |-> obj'.wavs])
               /\ UNCHANGED file
\* SEDCube.get_sed(name): the SED that was put in
GetSed(m) == /\ obj # Null /\ obj.kind = "cube" /\ obj.unc /\ Len(hist) < MaxOps
             /\ obj' = [kind |-> "sed", wavs |-> obj.wavs, cells |-> <<obj.cells[m]>>, unc |-> TRUE]
             /\ hist' = Append(hist, [op |-> "get_sed", m |-> m, wavs |-> obj.wavs])
             /\ UNCHANGED file
Next == \/ \E k \in {"sed", "cube"}, ax \in {"asc", "desc"}, hu \in BOOLEAN : (k = "sed" => hu) /\ Create(k, ax, hu)
        \/ Write \/ (\E o \in {"nu", "wav"} : Read(o)) \/ (\E m \in 1..NM : GetSed(m))
Spec == Init /\ [][Next]_vars

(* C12 *)
ReadBack == WellFormed(obj) /\ WellFormed(file)
ModelIdentity == obj.kind # "none" => \A i \in DOMAIN obj.cells : \A a \in DOMAIN obj.cells[i] : \A p \in 1..NW :
                    (obj.kind = "cube" => obj.cells[i][a][p][1] = i)
AxisIsMonotone == obj.kind # "none" => (FreqAscending(obj) \/ WavAscending(obj))
OtherOrderOnlyReverses ==
  file.kind # "none" =>
     LET a == IF ~FreqAscending(file) THEN Reverse(file) ELSE file      \* Read("nu")
         b == IF ~WavAscending(file) THEN Reverse(file) ELSE file       \* Read("wav")
     IN  b = Reverse(a)
EmitInv == Len(hist) = MaxOps => PrintT(ToJson(hist))
=============================================================================
