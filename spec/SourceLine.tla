----------------------------- MODULE SourceLine -----------------------------
(***************************************************************************)
(* The fitter data format (docs/data.rst) and Source.from_ascii/to_ascii   *)
(* (C20), over abstract TOKENS.  A line is a sequence of tokens            *)
(*    [c |-> class, p |-> id]                                              *)
(* class "F": an integer in {0,1,2,3,4,9}   (valid flag, valid number)     *)
(*       "B": another integer (5, 7, -1, 10) (not a flag, valid number)    *)
(*       "N": a non-integer number (6.869e+01) (valid number only)         *)
(*       "S": not a number (valid only as a source name)                   *)
(* and the id p identifies the token so that mis-assignment is visible.    *)
(***************************************************************************)
EXTENDS Integers, Sequences

IsFlag(t) == t.c = "F"
IsInt(t)  == t.c \in {"F", "B"}
IsNum(t)  == t.c \in {"F", "B", "N"}

EOFR    == [k |-> "eof"]
Reject  == [k |-> "reject"]

(* ALGORITHM LAYER: the steps of Source.from_ascii                          *)
ParseAlg(cols) ==
  IF Len(cols) < 3 THEN EOFR                                     \* ends the input
  ELSE LET n    == (Len(cols) - 3) \div 3                        \* np.int32((len - 3) / 3)
           vcol == SubSeq(cols, 4, 3 + n)                        \* cols[3:3+n]  -> int array
           rest == SubSeq(cols, 4 + n, Len(cols))                \* cols[3+n:]   -> float array
           flux == [i \in 1..((Len(rest) + 1) \div 2) |-> rest[2 * i - 1]]   \* [::2]
           err  == [i \in 1..(Len(rest) \div 2) |-> rest[2 * i]]             \* [1::2]
       IN  IF ~IsNum(cols[2]) \/ ~IsNum(cols[3]) THEN Reject     \* np.float64(...)
           ELSE IF \E i \in 1..n : ~IsInt(vcol[i]) THEN Reject   \* dtype=int conversion
           ELSE IF \E i \in 1..n : ~IsFlag(vcol[i]) THEN Reject  \* valid setter range check
           ELSE IF \E i \in 1..Len(rest) : ~IsNum(rest[i]) THEN Reject
           ELSE IF Len(flux) # n \/ Len(err) # n THEN Reject     \* setters' length cross-checks
           ELSE [k |-> "ok", name |-> cols[1], x |-> cols[2], y |-> cols[3],
                 valid |-> vcol, flux |-> flux, err |-> err]

(* PROPERTY LAYER: the documented layout, declaratively                     *)
WellFormed(cols) ==
  /\ Len(cols) >= 3 /\ (Len(cols) - 3) % 3 = 0
  /\ LET n == (Len(cols) - 3) \div 3
     IN  /\ IsNum(cols[2]) /\ IsNum(cols[3])
         /\ \A i \in 4..(3 + n) : IsFlag(cols[i])
         /\ \A i \in (4 + n)..Len(cols) : IsNum(cols[i])
Layout(cols, r) ==
  LET n == (Len(cols) - 3) \div 3
  IN  /\ r.name = cols[1] /\ r.x = cols[2] /\ r.y = cols[3]
      /\ Len(r.valid) = n /\ Len(r.flux) = n /\ Len(r.err) = n
      /\ \A i \in 1..n : /\ r.valid[i] = cols[3 + i]
                         /\ r.flux[i] = cols[3 + n + 2 * i - 1]
                         /\ r.err[i]  = cols[3 + n + 2 * i]
ParsedByLayoutOrRejected(cols) ==
  LET r == ParseAlg(cols)
  IN  /\ (Len(cols) < 3) <=> (r.k = "eof")
      /\ (r.k = "ok") <=> WellFormed(cols)
      /\ (r.k = "ok") => Layout(cols, r)

\* Source.to_ascii: name, x, y, flags, then (flux, error) pairs
Format(r) == <<r.name, r.x, r.y>> \o r.valid
             \o [i \in 1..(2 * Len(r.flux)) |-> IF i % 2 = 1 THEN r.flux[(i + 1) \div 2] ELSE r.err[i \div 2]]
RoundTrip(cols) == LET r == ParseAlg(cols) IN r.k = "ok" => (Format(r) = cols /\ ParseAlg(Format(r)) = r)
=============================================================================
