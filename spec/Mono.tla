-------------------------------- MODULE Mono --------------------------------
(***************************************************************************)
(* C16.  convolve_model_dir_monochromatic: one output file per SED         *)
(* wavelength inside the requested window, produced in chunks whose size   *)
(* is set by the memory limit.  Wavelengths are indexed j = 0..n-1 in      *)
(* INCREASING FREQUENCY (file MO001 is the longest wavelength), with       *)
(* W(j) = 2 (n - j): even integers, so that window ends can fall on a      *)
(* wavelength (even) or between two (odd); 0 / 2n+2 stand for no bound.    *)
(* Also: the nearest-wavelength slice used for cube packages.              *)
(***************************************************************************)
EXTENDS Integers, FiniteSets, Sequences, TLC, Json
CONSTANTS MaxN
VARIABLES n, c, lo, hi,      \* the call: number of wavelengths, chunk size, window
          pc, jmin, emitted  \* the chunk loop
vars == <<n, c, lo, hi, pc, jmin, emitted>>

W(nn, j) == 2 * (nn - j)
CountBelow(nn, x) == Cardinality({j \in 0..(nn - 1) : W(nn, j) < x})      \* searchsorted on the reversed array
JLo == n - CountBelow(n, hi)
JHi == n - 1 - CountBelow(n, lo)
Min2(a, b) == IF a < b THEN a ELSE b
Chunk == LET k == Min2(c, JHi - JLo + 1) IN IF k < 1 THEN 1 ELSE k

Init == /\ n \in 2..MaxN /\ c \in 1..MaxN /\ c <= n
        /\ lo \in 0..(2 * MaxN + 1) /\ hi \in 1..(2 * MaxN + 2) /\ lo <= 2 * n + 1 /\ hi <= 2 * n + 2 /\ lo <= hi
        /\ pc = "start" /\ jmin = 0 /\ emitted = {}
Start == pc = "start" /\ jmin' = JLo /\ pc' = "loop" /\ UNCHANGED <<n, c, lo, hi, emitted>>
\* one chunk: wavelengths jmin .. min(jmin + chunk - 1, jhi) are read from every SED and written out
MonoChunk == /\ pc = "loop" /\ jmin <= JHi
             /\ LET jmax == Min2(jmin + Chunk - 1, JHi)
                IN  emitted' = emitted \cup (jmin..jmax) /\ jmin' = jmax + 1
             /\ UNCHANGED <<n, c, lo, hi, pc>>
MonoDone == pc = "loop" /\ jmin > JHi /\ pc' = "done" /\ UNCHANGED <<n, c, lo, hi, jmin, emitted>>
Next == Start \/ MonoChunk \/ MonoDone
Spec == Init /\ [][Next]_vars /\ WF_vars(Next)

(* C16 *)
Strict    == {j \in 0..(n - 1) : lo < W(n, j) /\ W(n, j) < hi}       \* "above wav_min, below wav_max"
Inclusive == {j \in 0..(n - 1) : lo <= W(n, j) /\ W(n, j) <= hi}     \* exact equality with a bound is left open
EmitsExactlyInRange == pc = "done" => (Strict \subseteq emitted /\ emitted \subseteq Inclusive)
NeverOutside == emitted \subseteq Inclusive
\* the result does not depend on the chunk size: it is a function of (n, lo, hi)
CodeSemantics == {j \in 0..(n - 1) : lo <= W(n, j) /\ W(n, j) < hi}
ChunkIndependent == pc = "done" => emitted = CodeSemantics
EachOnce == [][pc = "loop" => (emitted' = emitted \/ (emitted' \ emitted) \cap emitted = {})]_vars
Terminates == <>(pc = "done")

\* nearest tabulated wavelength (cube packages): index of a wavelength at minimal distance.  Requests are x4 / 4 (quarter
\* units); the cube's wavelengths are GEOMETRIC (2, 4, 8, ...), so "nearest in wavelength" differs from "nearest in
\* frequency" (boundary at the harmonic instead of the arithmetic mean) and from "nearest in log wavelength" (geometric mean)
Nearest(wavs, x4) == {i \in 1..Len(wavs) : \A k \in 1..Len(wavs) :
                         (IF 4 * wavs[i] >= x4 THEN 4 * wavs[i] - x4 ELSE x4 - 4 * wavs[i])
                      <= (IF 4 * wavs[k] >= x4 THEN 4 * wavs[k] - x4 ELSE x4 - 4 * wavs[k])}
RECURSIVE Pow2(_)
Pow2(k) == IF k = 0 THEN 1 ELSE 2 * Pow2(k - 1)
\* probes per adjacent pair (a, b): just above a, just above the harmonic mean, just below / on / just above the arithmetic
\* mean (the tie), just below b; plus below the first and above the last wavelength
PairProbes(a, b) == {4 * a + 1, ((8 * a * b) \div (a + b)) + 1, 2 * (a + b) - 1, 2 * (a + b), 2 * (a + b) + 1, 4 * b - 1}
Probes(wavs) == {2, 4 * wavs[1], 4 * wavs[Len(wavs)] + 7} \cup UNION {PairProbes(wavs[i], wavs[i + 1]) : i \in 1..(Len(wavs) - 1)}
\* the probe above the harmonic mean lies strictly between the harmonic and the arithmetic mean for every pair of the geometric grid
HarmonicProbeSeparates == \A i \in 1..(n - 1) : LET a == Pow2(i)  b == Pow2(i + 1)  x == ((8 * a * b) \div (a + b)) + 1
                                                 IN  x * (a + b) > 8 * a * b /\ x < 2 * (a + b) /\ Nearest(<<a, b>>, x) = {1}

SetToSeqSorted(S) == LET RECURSIVE F(_, _)
                         F(T, acc) == IF T = {} THEN acc
                                      ELSE LET m == CHOOSE x \in T : \A y \in T : x <= y IN F(T \ {m}, Append(acc, m))
                     IN  F(S, <<>>)
WAsc == [i \in 1..n |-> Pow2(i)]        \* the cube's wavelengths in increasing order
EmitInv == pc = "done" => PrintT(ToJson([n |-> n, c |-> c, lo |-> lo, hi |-> hi, emitted |-> SetToSeqSorted(emitted),
                                          open |-> SetToSeqSorted(Inclusive \ Strict),
                                          near |-> IF c = 1 /\ lo = 0 /\ hi = 2 * n + 2
                                                   THEN [x4 \in Probes(WAsc) |-> SetToSeqSorted(Nearest(WAsc, x4))] ELSE <<>>]))
=============================================================================
