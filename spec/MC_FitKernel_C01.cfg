SPECIFICATION Spec
CONSTANTS
  NBands = 3
  Flags = {0, 1, 2, 3, 4, 9}
  YS = {4, 11}
  QS = {1, 2}
  SampleMod = 8
  SampleRes = 0
  Mode = "indep"
INVARIANT KKTInv
INVARIANT BeatsInv
INVARIANT ChiIsMinPlusPenalties
INVARIANT EmitInv
CHECK_DEADLOCK FALSE
