----------------------------- MODULE MC_Resolved -----------------------------
(***************************************************************************)
(* Extension (X02): remove_resolved.  For every model m, filter j the      *)
(* half-peak surface-brightness radius R_mj is computed (find_radius_sigma *)
(* with fraction 1/2) on the table of the fluxes interpolated to the       *)
(* trial radii rho_ij = theta_j d_i and scaled to each distance; model m   *)
(* is "extended" at distance i in filter j iff rho_ij < R_mj, and a model  *)
(* extended in ANY filter whose flag is > 0 (1,2,3,4,9) gets chi^2 = +Inf  *)
(* at that distance.  The reported fit is the grid minimum over what is    *)
(* left (all distances extended: chi^2 = Inf, first distance reported).    *)
(* Cube entries are integer dex (L multiple of 4) so that fluxes are       *)
(* rational.  Distances 1, 10, 100 pc; theta in arcsec = radius in AU/pc.  *)
(***************************************************************************)
EXTENDS FitKernel, RadiusOps, TLC, Json
CONSTANTS RFlags, RYs, RWs, RPs, RMod       \* enumeration of the source bands (Y offset by +8 in the cfg) and emission sampling
Theta == <<1, 2>>
Dist  == <<1, 10, 100>>
Cubes == << << << <<0, 0>>, <<-8, -8>>, <<-16, -16>> >>,          \* point source: same flux in every aperture -> d^-2
               << <<0, 4>>, <<0, -4>>, <<-8, -12>> >>,            \* extended: flux grows with aperture
               << <<4, 4>>, <<4, 0>>, <<0, -8>> >> >>,
            << << <<0, 0>>, <<0, 0>>, <<0, 0>> >>,                \* flux ~ r^2 (uniform surface brightness)
               << <<8, 4>>, <<-4, 0>>, <<-12, -12>> >>,
               << <<-4, 0>>, <<-4, -8>>, <<-20, -16>> >> >> >>
KPats == << <<3, 1>>, <<2, 0>> >>
VARIABLES src, cfg
vars == <<src, cfg>>
K == KPats[cfg.k]   Cube == Cubes[cfg.c]   NM == Len(Cube)   ND == 3
ULo == 0   UHi == 40
P10(e) == IF e >= 0 THEN RInt(Pow10(e)) ELSE R(1, Pow10(-e))
Lin(m, i, j) == P10(Cube[m][i][j] \div 4)
Rho(i, j) == Theta[j] * Dist[i]
Rsig(m, j) == RadiusSigmaT([i \in 1..ND |-> Rho(i, j)], [i \in 1..ND |-> Lin(m, i, j)], R(1, 2))
Extended(m, i, j) == RLt(RInt(Rho(i, j)), Rsig(m, j))
Excluded(m, i) == \E j \in 1..2 : src.flag[j] > 0 /\ Extended(m, i, j)
Empty == [flag |-> <<>>, Y |-> <<>>, W |-> <<>>, P |-> <<>>]
Init == src = Empty /\ cfg \in [c : 1..Len(Cubes), k : 1..Len(KPats)]
AddBand(f, y, w, p) == /\ Len(src.flag) < 2
                       /\ src' = [flag |-> Append(src.flag, f), Y |-> Append(src.Y, y), W |-> Append(src.W, w), P |-> Append(src.P, p)]
                       /\ UNCHANGED cfg
Next == \E f \in RFlags, y \in {yy - 8 : yy \in RYs}, w \in RWs, p \in RPs : AddBand(f, y, w, p)
Spec == Init /\ [][Next]_vars
Full == Len(src.flag) = 2
OK == Full /\ ~SingularDist(src, K)
Fits(m) == [i \in 1..ND |-> FitAtDist(src, Cube[m][i], K, ULo, UHi)]
Allowed(m) == {i \in 1..ND : ~Excluded(m, i)}
BestAllowed(m) == {i \in Allowed(m) : \A i2 \in Allowed(m) : ChiLe(Fits(m)[i], Fits(m)[i2])}
\* a resolved model is never reported at a distance where it is resolved; unresolved distances compete as in C02
NeverReportedWhereResolved == OK => \A m \in 1..NM : BestAllowed(m) \subseteq Allowed(m) /\ (Allowed(m) # {} => BestAllowed(m) # {})
\* OBSERVATION (found by TLC on this spec, not one of the listed properties, code left as is): one would expect a
\* point source (same flux in every aperture, hence d^-2 over the grid) to be resolved nowhere.  This does NOT hold
\* for the algorithm the code implements: the radius finder runs on the fluxes AFTER the d^-2 scaling, with the
\* trial radii theta*d_i as "apertures", so the inverse-square dimming is read as a surface-brightness profile:
\* cube 1, model 1 (pure point source) gets R = 5.46 AU > rho_11 = 1 AU and is excluded at the nearest distance.
\* (fit.py lists "Remove resolved models" under "Still to implement".)  Not in the .cfg.
PointSourceNeverResolved == \A m \in 1..NM :
     (\A j \in 1..2 : \A i \in 1..ND : Cube[m][i][j] = Cube[m][1][j] - 8 * (i - 1)) => \A i \in 1..ND, j \in 1..2 : ~Extended(m, i, j)
Checksum == SumSeq([j \in 1..Len(src.flag) |-> (src.flag[j] * 7 + src.Y[j] * 13 + src.W[j] * 3 + src.P[j] * 5 + 1000) * (j + 1)]) + cfg.c * 17 + cfg.k * 29
SetSeq(S) == LET RECURSIVE F(_, _)
                 F(T2, acc) == IF T2 = {} THEN acc ELSE LET m == CHOOSE x \in T2 : \A y \in T2 : x <= y IN F(T2 \ {m}, Append(acc, m))
             IN  F(S, <<>>)
EmitInv == (OK /\ Checksum % RMod = 0) =>
  PrintT(ToJson([src |-> src, K |-> K, cfg |-> cfg, cube |-> Cube,
                 ext |-> [m \in 1..NM |-> [i \in 1..ND |-> [j \in 1..2 |-> Extended(m, i, j)]]],
                 rows |-> [m \in 1..NM |-> [allowed |-> SetSeq(Allowed(m)), best |-> SetSeq(BestAllowed(m)),
                                            bnd |-> (\E i \in 1..ND : Fits(m)[i].boundary),
                                            fits |-> [i \in 1..ND |-> [u |-> Fits(m)[i].u, big |-> Fits(m)[i].big, chi |-> Fits(m)[i].chi, pred20 |-> Fits(m)[i].pred20]]]]]))
=============================================================================
