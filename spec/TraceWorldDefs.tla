--------------------------- MODULE TraceWorldDefs ---------------------------
(* Placeholder: the harness generates this module per recorded world.        *)
TWPool == << [flag |-> <<1, 1>>, Y |-> <<0, 0>>, W |-> <<1, 1>>, P |-> <<0, 0>>] >>
TWGrid == << <<0, 0>> >>
TWK == <<2, 1>>
TWU == 0
TWUnit == 144000
=============================================================================
