SPECIFICATION Spec
CONSTANTS
  MaxLen = 3
  MaxKeeps = 2
  Emit = FALSE
VIEW view
INVARIANT TypeOK
INVARIANT Promised
INVARIANT Idempotent
INVARIANT LooserFirst
PROPERTY KeepIsPrefix
CHECK_DEADLOCK FALSE
