----------------------------- MODULE ApInterpOps -----------------------------
(* Constant-level part of C13: aperture interpolation of one row of a table.     *)
(* aps: Seq(Int) increasing radii; row: Seq(Int) values; q2 = 2 * requested radius *)
EXTENDS PwLin
FnT(aps, row) == [x |-> [i \in 1..Len(aps) |-> RInt(aps[i])], y |-> [i \in 1..Len(aps) |-> RInt(row[i])]]
TooSmallT(aps, q2) == Len(aps) > 1 /\ q2 < 2 * aps[1]
\* clamp requests above the table to the largest radius, interp1d in between; n_ap = 1: repeat
InterpT(aps, row, q2) == IF Len(aps) = 1 THEN RInt(row[1])
                         ELSE LET q == R(q2, 2)
                                  qc == IF RLt(RInt(aps[Len(aps)]), q) THEN RInt(aps[Len(aps)]) ELSE q
                              IN  Eval(FnT(aps, row), qc)
\* the plotting variant clamps to 0.999 * largest radius instead (SED.interpolate_variable)
InterpPlotT(aps, row, q2) == IF Len(aps) = 1 THEN RInt(row[1])
                             ELSE LET q == R(q2, 2)
                                      \* (>=: with radii stored in another unit the largest one itself may compare as above)
                                      qc == IF RLe(RInt(aps[Len(aps)]), q) THEN R(999 * aps[Len(aps)], 1000) ELSE q
                                  IN  Eval(FnT(aps, row), qc)
=============================================================================
