------------------------------- MODULE Package -------------------------------
(***************************************************************************)
(* C07 (and the end-to-end half of C06).  A model package of NM models in  *)
(* per-file or cube format, convolved with filters by convolve_model_dir.  *)
(*   tab    : the parameter-table order (sequence of model ids)            *)
(*   list   : the order in which the SEDs are encountered -- directory     *)
(*            listing order of the SED files, or the order inside the cube *)
(*   stored : per model, whether its file stores the spectral axis in      *)
(*            increasing or decreasing wavelength                          *)
(* SED of model m, aperture a on the (fixed) frequency grid GX has flux    *)
(* Fl(m,a,i), error Er(m,a,i) at grid node i: distinct enough that a       *)
(* mislabelled row, aperture or a reversed spectrum cannot coincide.       *)
(***************************************************************************)
EXTENDS RebinOps, TLC, Json
CONSTANTS NM, SampleMod, SampleRes
VARIABLES tab, list, stored, fmt, na, gsel, conv
vars == <<tab, list, stored, fmt, na, gsel, conv>>

GX == <<2, 4, 6, 8, 12, 14, 16, 20>>
\* a second grid with the same length and end points but other interior nodes: in a per-file package every SED may
\* come on its own grid (gsel[m] picks it); a cube has one grid for all models
GX2 == <<2, 4, 8, 10, 12, 16, 18, 20>>
GridOf(m) == IF fmt = "perfile" /\ gsel[m] = 2 THEN GX2 ELSE GX
Filters == << [fx |-> <<3, 5, 6>>, fy |-> <<0, 2, 1>>],        \* inside the grid, zero / non-zero edges
              [fx |-> <<10, 13, 17, 22>>, fy |-> <<1, 3, 3, 0>>],     \* sticks out of the grid at the top
              [fx |-> <<9, 10, 11>>, fy |-> <<1, 2, 1>>] >>           \* narrow: holds NO node of GX (both neighbours 8 and 12 lie outside, their bins reach in) and one node of GX2
Fl(m, a, i) == 1 + ((7 * m + 3 * a + 5 * i) % 9)
Er(m, a, i) == 1 + ((m + 2 * a + i) % 4)
\* binned responses per (filter, grid): constant-level, evaluated once by TLC
RBTab == [f \in 1..Len(Filters) |-> <<Rebin(Filters[f].fx, Filters[f].fy, GX), Rebin(Filters[f].fx, Filters[f].fy, GX2)>>]
GIdx(m) == IF fmt = "perfile" /\ gsel[m] = 2 THEN 2 ELSE 1
\* convolved values per (model, aperture, filter, grid): constant-level table
CFTab == [m \in 1..NM |-> [a \in 1..2 |-> [f \in 1..Len(Filters) |-> [g \in 1..2 |->
            [flux |-> Conv([i \in 1..Len(GX) |-> Fl(m, a, i)], RBTab[f][g]), err2 |-> Err2([i \in 1..Len(GX) |-> Er(m, a, i)], RBTab[f][g])]]]]]
ConvFlux(m, a, f) == CFTab[m][a][f][GIdx(m)].flux
ConvErr2(m, a, f) == CFTab[m][a][f][GIdx(m)].err2

Perms == {p \in [1..NM -> 1..NM] : \A x, y \in 1..NM : x # y => p[x] # p[y]}
\* np.argsort of a sequence of distinct model ids (ids are ordered like their names)
ArgSort(s) == CHOOSE p \in Perms : \A x \in 1..(NM - 1) : s[p[x]] < s[p[x + 1]]
\* utils.misc.order_to_match(array, reference) = argsort(array)[argsort(argsort(reference))]
OrderToMatch(array, ref) == LET a == ArgSort(array)  r == ArgSort(ArgSort(ref)) IN [k \in 1..NM |-> a[r[k]]]

Init == /\ tab \in Perms /\ list \in Perms /\ stored \in [1..NM -> {"asc", "desc"}]
        /\ fmt \in {"perfile", "cube"} /\ na \in {1, 2} /\ conv = <<>>
        /\ gsel \in {<<1, 1, 1>>, <<1, 2, 1>>, <<2, 1, 2>>}
\* ALGORITHM LAYER.  per-file: one row per SED file in listing order (the reader puts each spectrum in
\* increasing frequency whatever the stored order), then rows re-ordered to the parameter table by name;
\* cube: rows in cube order, refused unless that is the table order.
Row(m, f) == [model |-> m, flux |-> [a \in 1..na |-> ConvFlux(m, a, f)], err2 |-> [a \in 1..na |-> ConvErr2(m, a, f)]]
Convolve ==
  /\ conv = <<>>
  /\ conv' = IF fmt = "cube"
             THEN (IF list = tab THEN [f \in 1..Len(Filters) |-> [k \in 1..NM |-> Row(list[k], f)]] ELSE <<"refused">>)
             ELSE LET ord == OrderToMatch(list, tab)
                  IN  [f \in 1..Len(Filters) |-> [k \in 1..NM |-> Row(list[ord[k]], f)]]
  /\ UNCHANGED <<tab, list, stored, fmt, na, gsel>>
Next == Convolve
Spec == Init /\ [][Next]_vars

(* C07 *)
Done == conv # <<>> /\ conv # <<"refused">>
RowsLabelledRight == Done => \A f \in 1..Len(Filters), k \in 1..NM, a \in 1..na :
                        conv[f][k].flux[a] = ConvFlux(conv[f][k].model, a, f) /\ conv[f][k].err2[a] = ConvErr2(conv[f][k].model, a, f)
OrderFollowsTable == Done => \A f \in 1..Len(Filters), k \in 1..NM : conv[f][k].model = tab[k]
CubeRefusesMismatch == (conv = <<"refused">>) <=> (conv # <<>> /\ fmt = "cube" /\ list # tab)
\* distinctness: a wrong model / aperture in a row would be visible
CellsDistinct == \A f \in 1..Len(Filters) : \A m1, m2 \in 1..NM, a1, a2 \in 1..2 :
                    (m1 # m2 \/ a1 # a2) => CFTab[m1][a1][f][1].flux # CFTab[m2][a2][f][1].flux

RECURSIVE Sum(_)
Sum(s) == IF s = <<>> THEN 0 ELSE Head(s) + Sum(Tail(s))
Checksum == Sum([k \in 1..NM |-> tab[k] * k * 3 + list[k] * (k + 4) * 5 + (IF stored[k] = "asc" THEN k ELSE 0) + gsel[k] * k]) + na + (IF fmt = "cube" THEN 7 ELSE 0)
EmitInv == (conv # <<>> /\ Checksum % SampleMod = SampleRes) =>
             PrintT(ToJson([tab |-> tab, list |-> list, stored |-> stored, fmt |-> fmt, na |-> na, gsel |-> gsel,
                            refused |-> (conv = <<"refused">>), conv |-> IF conv = <<"refused">> THEN <<>> ELSE conv]))
=============================================================================
