SPECIFICATION Spec
CONSTANTS
  MaxN = 9
INVARIANT EmitsExactlyInRange
INVARIANT NeverOutside
INVARIANT ChunkIndependent
INVARIANT HarmonicProbeSeparates
INVARIANT EmitInv
PROPERTY EachOnce
PROPERTY Terminates
CHECK_DEADLOCK FALSE
