---------------------------- MODULE Trace_ApInterp ----------------------------
(* Recorded ConvolvedFluxes.interpolate / SED.interpolate / interpolate_variable *)
(* calls validated against ApInterpOps (C13).  Trace: "Table" then "Call"s.      *)
EXTENDS ApInterpOps, TLC, Json, IOUtils, SequencesExt, FiniteSetsExt
Traces == JsonDeserialize(IOEnv.TRACE_FILE)
VARIABLES tid, l, tb, viol
vars == <<tid, l, tb, viol>>
Tr == Traces[tid]
Init == tid \in 1..Len(Traces) /\ l = 1 /\ tb = [aps |-> <<>>, rows |-> <<>>] /\ viol = {}
EvTable == /\ l = 1 /\ l <= Len(Tr) /\ Tr[l].ev = "Table"
           /\ tb' = [aps |-> Tr[l].aps, rows |-> Tr[l].rows]
           /\ viol' = {} /\ l' = l + 1 /\ UNCHANGED tid
\* api: "conv" | "sed" (whole vector of requests, every row) | "var" (request k applies to row rowof[k] only)
EvCall == /\ l > 1 /\ l <= Len(Tr) /\ Tr[l].ev = "Call"
          /\ LET e == Tr[l]
                 small == \E k \in 1..Len(e.req2) : TooSmallT(tb.aps, e.req2[k])
                 okval(r, k) == \/ Close(e.out[r][k], InterpT(tb.aps, tb.rows[r], e.req2[k]))
                                \/ (e.api = "var" /\ Close(e.out[r][k], InterpPlotT(tb.aps, tb.rows[r], e.req2[k])))
             IN  viol' = viol
                  \* BOUNDARY: a request exactly on the first/last radius through a unit conversion may be refused
                  \cup (IF small = (e.refused = 1) \/ (e.refused = 1 /\ e.edgeconv = 1) THEN {} ELSE {<<l, "call.refusal">>})
                  \cup (IF e.refused = 1 \/ small THEN {}
                        ELSE IF e.api = "var"
                             THEN (IF \A k \in 1..Len(e.req2) : okval(e.rowof[k], k) THEN {} ELSE {<<l, "call.value">>})
                             ELSE (IF Len(e.out) = Len(tb.rows) /\ \A r \in 1..Len(tb.rows) : \A k \in 1..Len(e.req2) : okval(r, k)
                                   THEN {} ELSE {<<l, "call.value">>}))
                  \cup (IF e.meta = 1 THEN {} ELSE {<<l, "call.names_or_wavelength_changed">>})
          /\ l' = l + 1 /\ UNCHANGED <<tid, tb>>
EvBad == /\ l <= Len(Tr) /\ ~(Tr[l].ev = "Table" /\ l = 1) /\ ~(Tr[l].ev = "Call" /\ l > 1)
         /\ viol' = viol \cup {<<l, "unknown.event">>} /\ l' = l + 1 /\ UNCHANGED <<tid, tb>>
Done == /\ l = Len(Tr) + 1
        /\ PrintT(ToJson([tid |-> tid, ok |-> (viol = {}), viol |-> SetToSeq(viol)]))
        /\ l' = l + 1 /\ UNCHANGED <<tid, tb, viol>>
Next == EvTable \/ EvCall \/ EvBad \/ Done
Spec == Init /\ [][Next]_vars
=============================================================================
