---------------------------- MODULE ExtinctionLaw ----------------------------
(* Constant-level part of C14: the law as a function of an opacity table          *)
(* t = [w |-> Seq(Int) wavelengths in 1/40 micron, c |-> Seq(Int) opacities].      *)
EXTENDS PwLin
V == 22
F(t) == [x |-> [i \in 1..Len(t.w) |-> RInt(t.w[i])], y |-> [i \in 1..Len(t.c) |-> RInt(t.c[i])]]
Covers(t) == Len(t.w) >= 2 /\ t.w[1] <= V /\ V <= t.w[Len(t.w)]
\* np.interp(lambda, left=0, right=0) / np.interp(0.55 micron) * -0.4
GetAv(t, q) == IF ~InDomain(F(t), RInt(q)) THEN Zero
               ELSE RMul(R(-2, 5), RDiv(Eval(F(t), RInt(q)), Eval(F(t), RInt(V))))
=============================================================================
