----------------------------- MODULE ModelsRead -----------------------------
(***************************************************************************)
(* X06 (extension).  Fitter.__init__ / Models.read: how the model flux     *)
(* table of a fitter is assembled from a package directory.  A package is  *)
(* described by its format (per-file = version 1, cube = version 2), and   *)
(* per requested filter: how the filter is named (a file name, or -- cube  *)
(* packages only -- a wavelength), whether convolved/<name>.fits exists    *)
(* (plain, gzipped, missing) and in which ROW ORDER it lists the models.   *)
(* Every flux cell is a token <<model, filter>>, so the assembled table    *)
(* shows where every number came from.                                     *)
(*                                                                         *)
(* ALGORITHM LAYER = the code: rows are taken positionally from each file, *)
(* the row labels from the LAST filter read.  PROPERTY LAYER: the cell in  *)
(* row r, column j is the flux of the model that labels row r in filter j. *)
(* That holds exactly when all files list the models in one order; the     *)
(* deviation is the named behaviour TrustsRowOrder (the code never         *)
(* compares the name columns of different files).                          *)
(***************************************************************************)
EXTENDS Integers, Sequences, FiniteSets, TLC, Json
Models == {1, 2, 3}
Orders == { <<1, 2, 3>>, <<1, 3, 2>>, <<2, 1, 3>>, <<2, 3, 1>>, <<3, 1, 2>>, <<3, 2, 1>>, <<1, 2>> }   \* the last one: a file with fewer rows
FileKinds == {"fits", "gz", "missing"}
NamedBy == {"name", "wav"}

VARIABLE cfg
Init == cfg \in [ver : {1, 2}, kind1 : FileKinds, kind2 : FileKinds, ord1 : Orders, ord2 : Orders, cubeord : {<<1, 2, 3>>, <<3, 1, 2>>},
                 by2 : NamedBy, naps : {2, 3}, dr : BOOLEAN]
Spec == Init /\ [][UNCHANGED cfg]_cfg

Err(why) == [k |-> "err", why |-> why, names |-> <<>>, cells |-> <<>>]
\* rows of the source of filter j: a file (its own order) or, for a wavelength, the cube slice (cube order)
Rows(j) == IF j = 1 THEN cfg.ord1 ELSE IF cfg.by2 = "wav" THEN cfg.cubeord ELSE cfg.ord2
Kind(j) == IF j = 1 THEN cfg.kind1 ELSE cfg.kind2
By(j) == IF j = 1 THEN "name" ELSE cfg.by2
\* ALGORITHM LAYER (Fitter.__init__ + Models._read_version_1/_2, aperture-independent package)
Read ==
  IF ~cfg.dr THEN Err("distance_range is validated as a length Quantity before anything else, for every package")
  ELSE IF cfg.naps # 2 THEN Err("length of apertures list should match length of filter names list")
  ELSE IF cfg.ver = 1 /\ cfg.by2 = "wav" THEN Err("a per-file package has no entry for a filter given by wavelength")
  ELSE IF \E j \in 1..2 : By(j) = "name" /\ Kind(j) = "missing" THEN Err("File not found")
  ELSE IF Len(Rows(1)) # Len(Rows(2)) THEN Err("rows of a later file do not fit the table sized by the first")
  ELSE IF cfg.ver = 2 /\ Len(Rows(1)) # Len(cfg.cubeord) THEN Err("the table of a cube package is sized by the cube")
  ELSE [k |-> "ok", why |-> "",
        names |-> Rows(2),                                                     \* labels come from the LAST filter
        cells |-> [r \in 1..Len(Rows(1)) |-> <<Rows(1)[r], Rows(2)[r]>>]]     \* row r of every file, positionally
\* PROPERTY LAYER
FilesAgree == Rows(1) = Rows(2)
RowsBelongToNames(res) == res.k = "ok" => \A r \in 1..Len(res.names) : \A j \in 1..2 : res.cells[r][j] = res.names[r]
\* what a user may rely on: packages whose files agree (everything convolve_model_dir writes for one parameter table) are read right,
\* plain or gzipped
AgreeingFilesReadRight == FilesAgree => RowsBelongToNames(Read)
\* named behaviour: when the files disagree the code neither refuses nor re-orders: cells of different models share a row
TrustsRowOrder == (Read.k = "ok" /\ ~FilesAgree) => ~RowsBelongToNames(Read)
EmitInv == PrintT(ToJson([cfg |-> cfg, res |-> Read, agree |-> FilesAgree]))
=============================================================================
