SPECIFICATION Spec
CONSTANTS
  Radii = {1, 2, 3, 5}
  Vals = {0, 1, 3, 4, 9}
  MaxKnots = 4
INVARIANT SigmaInv
INVARIANT CumulInv
INVARIANT EmitInv
CHECK_DEADLOCK FALSE
