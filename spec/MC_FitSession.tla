---------------------------- MODULE MC_FitSession ----------------------------
EXTENDS FitSession, Json
PoolDef == << [flag |-> <<1, 1, 1>>, Y |-> <<2, 5, -3>>, W |-> <<1, 1, 1>>, P |-> <<0, 0, 0>>],
              [flag |-> <<1, 4, 0>>, Y |-> <<0, 3, 9>>,  W |-> <<4, 4, 1>>, P |-> <<0, 0, 0>>],
              [flag |-> <<1, 1, 3>>, Y |-> <<6, -2, 0>>, W |-> <<1, 4, 1>>, P |-> <<0, 0, -1>>],
              [flag |-> <<1, 0, 9>>, Y |-> <<3, 3, 3>>,  W |-> <<1, 1, 1>>, P |-> <<0, 0, 0>>],
              [flag |-> <<0, 2, 0>>, Y |-> <<1, 2, 3>>,  W |-> <<1, 1, 1>>, P |-> <<0, 2, 0>>],
              [flag |-> <<4, 4, 4>>, Y |-> <<1, 1, 1>>,  W |-> <<1, 1, 1>>, P |-> <<0, 0, 0>>] >>
GridDef == << <<0, 0, 0>>, <<4, -4, 8>>, <<-2, 6, 1>>, <<4, -4, 8>> >>
KDef    == <<4, 2, 1>>
UnitDef == 144000
Thr(c)    == S!Fin(UnitDef * c + 7)          \* thresholds just above c (never attained: see UnitOK)
OutSelsDef  == { [f |-> "A", v |-> 0], [f |-> "N", v |-> 2], [f |-> "F", v |-> Thr(1)], [f |-> "C", v |-> Thr(3)] }
PostSelsDef == { [f |-> "A", v |-> 0], [f |-> "N", v |-> 1], [f |-> "N", v |-> 3], [f |-> "F", v |-> Thr(1)], [f |-> "E", v |-> Thr(2)] }
\* thresholds of filter_output: tightly around each pool source's own criterion value (best chi^2 and
\* best chi^2 per fitted point), so that any distortion of the criterion flips some verdict
BestV(sid) == IF ChiTab[sid] # <<>> /\ ChiTab[sid][1].k = "fin" THEN ChiTab[sid][1].v ELSE 0
SplitThrDef == { Thr(0), Thr(40) } \cup UNION { { S!Fin(BestV(sid) + 7), S!Fin(BestV(sid) - 7),
                                                  S!Fin((BestV(sid) \div NDTab[sid]) + 7), S!Fin((BestV(sid) \div NDTab[sid]) - 7) }
                                                : sid \in {x \in 1..Len(PoolDef) : NDTab[x] >= 2} }

view == <<pc, run, pos, cur, file, objs, nposts>>
EmitInv == pc = "end" => PrintT(ToJson([run |-> run, file |-> file, hist |-> hist]))
ASSUME UnitOK
ASSUME PrintT(ToJson([pool |-> Pool, grid |-> Grid, K |-> KPat, u |-> U, unit |-> Unit,
                      ranking |-> RankTab, nd |-> NDTab,
                      best |-> [sid \in 1..Len(PoolDef) |-> IF ChiTab[sid][1].k = "fin" THEN ChiTab[sid][1].v ELSE -1],
                      sing |-> [sid \in 1..Len(PoolDef) |-> Singular(Pool[sid], KPat)]]))
=============================================================================
