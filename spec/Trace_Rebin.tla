------------------------------ MODULE Trace_Rebin ------------------------------
(* Recorded Filter.rebin calls on random filters / grids validated against RebinOps *)
EXTENDS RebinOps, TLC, Json, IOUtils, SequencesExt, FiniteSetsExt
Traces == JsonDeserialize(IOEnv.TRACE_FILE)
VARIABLES tid, l, viol
vars == <<tid, l, viol>>
Tr == Traces[tid]
Init == tid \in 1..Len(Traces) /\ l = 1 /\ viol = {}
EvRebin == /\ l <= Len(Tr) /\ Tr[l].ev = "Rebin"
           /\ LET e == Tr[l] IN
              viol' = viol
                \cup (IF e.raised = 0 THEN {} ELSE {<<l, "rebin.raised">>})
                \cup (IF e.raised = 1 \/ (Len(e.R) = Len(e.gx) /\ \A i \in 1..Len(e.gx) : Close(e.R[i], BinResponse(e.fx, e.fy, e.gx, i)))
                      THEN {} ELSE {<<l, "rebin.value">>})
           /\ l' = l + 1 /\ UNCHANGED tid
EvBad == /\ l <= Len(Tr) /\ Tr[l].ev # "Rebin"
         /\ viol' = viol \cup {<<l, "unknown.event">>} /\ l' = l + 1 /\ UNCHANGED tid
Done == /\ l = Len(Tr) + 1
        /\ PrintT(ToJson([tid |-> tid, ok |-> (viol = {}), viol |-> SetToSeq(viol)]))
        /\ l' = l + 1 /\ UNCHANGED <<tid, viol>>
Next == EvRebin \/ EvBad \/ Done
Spec == Init /\ [][Next]_vars
=============================================================================
