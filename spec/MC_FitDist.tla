----------------------------- MODULE MC_FitDist -----------------------------
(***************************************************************************)
(* C02.  Distance-dependent fitting.                                       *)
(* (a) the trial-distance grid: n = ceil(1 + span/step) log-uniform points *)
(*     including both ends; span = (nd-1) log10 r, step = rho * log10 r    *)
(*     with rho = sp/sq rational, so everything is exact;                  *)
(* (b) the flux cube: L[m][i][j] = quarter-dex log10 of the tabulated      *)
(*     convolved flux interpolated at radius theta_j d_i times (1kpc/d)^2  *)
(*     -- pi constructs the aperture tables from L and a recipe per cell   *)
(*     (on a knot | midway between two knots | beyond the largest knot);   *)
(*     the construction is checked exactly on integer-dex instances;       *)
(* (c) per model: per distance the 1-parameter A_V fit, clip, chi^2 with   *)
(*     penalties (FitKernel!FitAtDist), then the grid minimum.             *)
(***************************************************************************)
EXTENDS FitKernel, PwLin, TLC, Json
CONSTANTS Flags, YS, QS, SampleMod, SampleRes
QW == <<1, 4, 16>>
QP == <<0, 2, -1, 6, 1>>
NBd == 2

\* ---- (a) the grid --------------------------------------------------------------
CeilR(a) == IF a[1] % a[2] = 0 THEN a[1] \div a[2] ELSE (a[1] \div a[2]) + 1     \* a >= 0
NGridCode(nd, sp, sq) == IF nd = 1 THEN 1 ELSE CeilR(RAdd(One, R((nd - 1) * sq, sp)))
GridBoundary(nd, sp, sq) == nd > 1 /\ ((nd - 1) * sq) % sp = 0      \* span/step is an integer: floats may give n or n+1
\* C02: the fewest points that include both ends with spacing <= step
GridMinimal(nd, sp, sq) ==
  LET n == NGridCode(nd, sp, sq)
  IN  nd = 1 \/ (/\ n >= 2
                 /\ (nd - 1) * sq <= sp * (n - 1)                       \* spacing = span/(n-1) <= step
                 /\ (n = 2 \/ (nd - 1) * sq > sp * (n - 2)))           \* one point fewer would exceed it
GridTheorem == \A nd \in 1..6, sp \in 1..7, sq \in 1..7 : GridMinimal(nd, sp, sq)

\* ---- (b) construction of an aperture table from desired values (integer dex) ------
\* requests rq[i] (increasing radii), targets tg[i] (rational linear fluxes), recipe rc[i]
\* "knot": a knot at rq[i] with value tg[i];  "mid": knots at 9/10 rq[i] and 11/10 rq[i] with values 4/5 and 6/5 tg[i]
\* "clamp": no knot -- the request lies beyond the largest knot and must see the largest knot's value
RECURSIVE KnotsOf(_, _, _, _)
KnotsOf(rq, tg, rc, i) ==
  IF i > Len(rq) THEN <<>>
  ELSE (CASE rc[i] = "knot" -> << <<RInt(rq[i]), tg[i]>> >>
          [] rc[i] = "mid"  -> << <<R(9 * rq[i], 10), RMul(R(4, 5), tg[i])>>, <<R(11 * rq[i], 10), RMul(R(6, 5), tg[i])>> >>
          [] rc[i] = "clamp" -> <<>>) \o KnotsOf(rq, tg, rc, i + 1)
TableOf(rq, tg, rc) == LET k == KnotsOf(rq, tg, rc, 1)
                       IN  [x |-> [i \in 1..Len(k) |-> k[i][1]], y |-> [i \in 1..Len(k) |-> k[i][2]]]
ConstructionTheorem ==
  \A r \in {2, 10} : \A rc \in {<<"knot", "knot", "knot">>, <<"knot", "mid", "knot">>, <<"mid", "knot", "mid">>, <<"knot", "knot", "clamp">>} :
     LET rq == [i \in 1..3 |-> 100 * (IF i = 1 THEN 1 ELSE IF i = 2 THEN r ELSE r * r)]      \* theta d_i (AU)
         tg == [i \in 1..3 |-> IF rc[i] = "clamp" THEN RInt(7) ELSE RInt(i + 4)]
         tb == TableOf(rq, tg, rc)
     IN  \A i \in 1..3 : EvalClampHigh(tb, RInt(rq[i])) = (IF rc[i] = "clamp" THEN tb.y[NK(tb)] ELSE tg[i])
ASSUME GridTheorem
ASSUME PrintT(ToJson([grid |-> [nd \in 1..5 |-> [sp \in 1..7 |-> [sq \in 1..7 |-> <<NGridCode(nd, sp, sq), IF GridBoundary(nd, sp, sq) THEN 1 ELSE 0>>]]]]))
ASSUME ConstructionTheorem

\* ---- (c) the fit -----------------------------------------------------------------
\* cubes: L[m][i][j]; models x distances x bands (quarter dex)
Cubes == << << << <<0, 0>>, <<-8, -8>>, <<-16, -16>> >>,                   \* pure inverse square (r = 10)
               << <<4, -4>>, <<-4, -12>>, <<-12, -20>> >>,                  \* (every model of this cube: -2 dex per decade, so that
                                                                            \*  radii beyond the largest aperture can be exercised)
               << <<-2, 6>>, <<-10, -2>>, <<-18, -10>> >> >>,
            << << <<3, 1>>, <<3, 1>>, <<3, 1>> >>,                          \* same at every distance: exact tie over the grid
               << <<0, 5>>, <<-3, 2>>, <<1, 0>> >>,                         \* non-monotone
               << <<3, 1>>, <<3, 1>>, <<3, 1>> >> >> >>                     \* duplicated model
KPats == << <<3, 1>>, <<2, 0>>, <<1, 4>> >>
AvRanges == << <<-160, 160>>, <<0, 8>>, <<6, 6>>, <<40, 400>> >>

VARIABLES src, cfg
vars == <<src, cfg>>
K == KPats[cfg.k]   ULo == AvRanges[cfg.r][1]   UHi == AvRanges[cfg.r][2]
Cube == Cubes[cfg.c]
NM == Len(Cube)
ND == cfg.nd
Empty == [flag |-> <<>>, Y |-> <<>>, W |-> <<>>, P |-> <<>>]
Init == src = Empty /\ cfg \in [c : 1..Len(Cubes), k : 1..Len(KPats), r : 1..Len(AvRanges), nd : 1..3]
YV == {y - 8 : y \in YS}
AddBand(f, y, q) == /\ Len(src.flag) < NBd
                    /\ src' = [flag |-> Append(src.flag, f), Y |-> Append(src.Y, y), W |-> Append(src.W, QW[q]), P |-> Append(src.P, QP[q])]
                    /\ UNCHANGED cfg
Next == \E f \in Flags, y \in YV, q \in QS : AddBand(f, y, q)
Spec == Init /\ [][Next]_vars

Full == Len(src.flag) = NBd
OK == Full /\ ~SingularDist(src, K)
FitsOf(m) == [i \in 1..ND |-> FitAtDist(src, Cube[m][i], K, ULo, UHi)]
\* C02: A_V is the clipped 1-parameter optimum at each distance; chi^2 is the grid minimum
KKT1(m, i) == LET r == FitsOf(m)[i]
                  F == Fitted(src)
                  g == RSumSeq([j \in 1..NBd |-> IF j \in F THEN RScale(src.W[j] * K[j], T(src, Cube[m][i], K, r.u, Zero, j)) ELSE Zero])
              IN  /\ RLe(RInt(ULo), r.u) /\ RLe(r.u, RInt(UHi))
                  /\ (RLt(RInt(ULo), r.u) /\ RLt(r.u, RInt(UHi))) => g = Zero
                  /\ (r.u = RInt(ULo) /\ ULo # UHi) => RSign(g) >= 0
                  /\ (r.u = RInt(UHi) /\ ULo # UHi) => RSign(g) <= 0
OptimalAtEachDistance == OK => \A m \in 1..NM, i \in 1..ND : KKT1(m, i)
ChiIsGridMinimum == OK => \A m \in 1..NM : LET fs == FitsOf(m) IN
                       /\ BestDist(fs) # {}
                       /\ \A b \in BestDist(fs), i \in 1..ND : ChiLe(fs[b], fs[i])

Checksum == SumSeq([j \in 1..Len(src.flag) |-> (src.flag[j] * 7 + src.Y[j] * 13 + src.W[j] * 3 + src.P[j] * 5 + 1000) * (j + 1)])
            + cfg.c * 17 + cfg.k * 29 + cfg.r * 31 + cfg.nd * 37
SetSeq(S) == LET RECURSIVE F(_, _)
                 F(T2, acc) == IF T2 = {} THEN acc ELSE LET m == CHOOSE x \in T2 : \A y \in T2 : x <= y IN F(T2 \ {m}, Append(acc, m))
             IN  F(S, <<>>)
Row(m) == IF SingularDist(src, K) THEN [sing |-> TRUE]
          ELSE LET fs == FitsOf(m) IN
               [sing |-> FALSE, best |-> SetSeq(BestDist(fs)),
                fits |-> [i \in 1..ND |-> [u |-> fs[i].u, big |-> fs[i].big, chi |-> fs[i].chi, boundary |-> fs[i].boundary, pred20 |-> fs[i].pred20]]]
EmitInv == (Full /\ Checksum % SampleMod = SampleRes) =>
  PrintT(ToJson([src |-> src, K |-> K, ulo |-> ULo, uhi |-> UHi, cfg |-> cfg, ndata |-> NData(src),
                 cube |-> [m \in 1..NM |-> [i \in 1..ND |-> Cube[m][i]]], rows |-> [m \in 1..NM |-> Row(m)]]))
=============================================================================
