---------------------------- MODULE MC_FitKernel ----------------------------
(* Bounded instance of FitKernel for exhaustive checking and behaviour        *)
(* emission (C01, C03, C04, C11).  The source is produced band by band so     *)
(* that TLC's workers share the enumeration; every prefix (a source with      *)
(* fewer bands) is itself checked.                                            *)
EXTENDS FitKernel, TLC, Json
CONSTANTS NBands,            \* number of bands of a complete source
          Flags,             \* set of flags enumerated per band
          YS,                \* set of data values (quarter dex, offset by +8) per band
          QS,                \* set of quality classes per band (index into QW / QP)
          SampleMod, SampleRes,  \* emission subset: checksum % SampleMod = SampleRes
          CfgMod             \* configurations (grid, K pattern, A_V range) with (g+k+r) % CfgMod = 0
QW == <<1, 4, 16, 1, 4>>    \* weight 1/sigma^2 for flags 1,4
QP == <<0, 2, -1, 6, 1>>     \* penalty for flags 2,3 (-1 = certain limit)

\* model grids: sequences of models, each a sequence of quarter-dex log fluxes per band
Grids == << << <<0, 0, 0, 0, 0>>, <<4, -4, 8, 0, 2>>, <<-2, 6, 1, 3, -5>> >>,     \* generic
            << <<1, 2, 3, 4, 5>>, <<1, 2, 3, 4, 5>>, <<0, 0, 0, 0, 0>> >>,        \* duplicated model: exact tie
            << <<2, -2, 2, -2, 2>>, <<-2, 2, -2, 2, -2>>, <<0, 1, 0, 1, 0>> >> >> \* mirror images
KPats == << <<4, 2, 1, 0, 3>>,      \* all distinct, V band second
            <<2, 2, 1, 3, 1>>,      \* two equal
            <<0, 3, 3, 1, 2>> >>    \* one zero
\* A_V ranges in u = 4 A_V units
AvRanges == << <<-160, 160>>, <<0, 8>>, <<6, 6>>, <<-8, -2>>, <<40, 400>> >>

VARIABLES src, cfg
vars == <<src, cfg>>

K   == KPats[cfg.k]
ULo == AvRanges[cfg.r][1]
UHi == AvRanges[cfg.r][2]
Grid == Grids[cfg.g]
NM  == Len(Grid)

Empty == [flag |-> <<>>, Y |-> <<>>, W |-> <<>>, P |-> <<>>]
Init == /\ src = Empty
        /\ cfg \in {c \in [g : 1..Len(Grids), k : 1..Len(KPats), r : 1..Len(AvRanges)] : (c.g + c.k + c.r) % CfgMod = 0}
AddBand(f, y, q) ==
   /\ Len(src.flag) < NBands
   /\ src' = [flag |-> Append(src.flag, f), Y |-> Append(src.Y, y),
              W |-> Append(src.W, QW[q]), P |-> Append(src.P, QP[q])]
   /\ UNCHANGED cfg
YV == {y - 8 : y \in YS}       \* cfg files cannot hold negative numbers: YS is offset by 8
Next == \E f \in Flags, y \in YV, q \in QS : AddBand(f, y, q)
Spec == Init /\ [][Next]_vars

OK == ~Singular(src, K)                     \* the property's quantifier
Fit(s, m) == FitIndep(s, Grid[m], K, ULo, UHi)

----------------------------------------------------------------------------
(* C01 *)
KKTInv   == OK => \A m \in 1..NM : KKT(src, Grid[m], K, ULo, UHi, Fit(src, m))
BeatsInv == OK => \A m \in 1..NM : Beats(src, Grid[m], K, ULo, UHi, Fit(src, m))
ChiIsMinPlusPenalties ==
  OK => \A m \in 1..NM : LET r == Fit(src, m)
                          IN  /\ RDiv(ChiDirect400(src, Grid[m], K, r), RInt(400)) = r.lsq
                              /\ RSign(r.lsq) >= 0
                              /\ RLe(r.lsq, r.chi)

(* C03 *)
With(s, j, f, y, w, p) == [flag |-> [s.flag EXCEPT ![j] = f], Y |-> [s.Y EXCEPT ![j] = y],
                           W |-> [s.W EXCEPT ![j] = w], P |-> [s.P EXCEPT ![j] = p]]
Same(a, b) == a.u = b.u /\ a.v = b.v /\ a.big = b.big /\ a.chi = b.chi /\ a.pred20 = b.pred20
\* replacing an ignored band by the canonical unused band (flag 0, Y = 0) changes nothing; by
\* transitivity any two contents of an ignored band (any flag in {0,9}, any payload) are equivalent
IgnoredIrrelevant ==
  OK => \A j \in Bands(src) : src.flag[j] \in {0, 9} =>
          \A m \in 1..NM : Same(Fit(With(src, j, 0, 0, 1, 0), m), Fit(src, m))
LimitNeverInLSQ ==
  OK => \A j \in Limits(src) : \A m \in 1..NM :
          LET a == Fit(src, m)  b == Fit(With(src, j, 0, 0, 1, 0), m)
          IN  a.u = b.u /\ a.v = b.v /\ a.lsq = b.lsq
ZeroConfidenceIsUnused ==
  OK => \A j \in Limits(src) : \A m \in 1..NM :
          Same(Fit(With(src, j, src.flag[j], src.Y[j], src.W[j], 0), m), Fit(With(src, j, 0, 0, 1, 0), m))
PenaltyOnlyOnForbiddenSide ==
  OK => \A m \in 1..NM :
          LET r == Fit(src, m)
              t(j) == RSign(T(src, Grid[m], K, r.u, r.v, j))
              bad == {j \in Limits(src) : (src.flag[j] = 2 /\ t(j) > 0) \/ (src.flag[j] = 3 /\ t(j) < 0)}
          IN  /\ r.big = Cardinality({j \in bad : src.P[j] = -1})
              /\ r.chi = RAdd(r.lsq, RInt(SumSeq([j \in Bands(src) |-> IF j \in bad /\ src.P[j] # -1 THEN src.P[j] ELSE 0])))
Flag4EqFlag1 ==
  OK => \A j \in Fitted(src) : \A m \in 1..NM :
          Same(Fit(With(src, j, 5 - src.flag[j], src.Y[j], src.W[j], src.P[j]), m), Fit(src, m))

(* C04: ranking.  A ranking is a permutation of the models, non-decreasing in chi^2    *)
(* (Fin < Big by count), ties in any order; each row is the fit of ITS model.          *)
ChiVal(r) == [big |-> r.big, chi |-> r.chi]
Rankings == {p \in [1..NM -> 1..NM] :
               /\ \A a, b \in 1..NM : a # b => p[a] # p[b]
               /\ \A a \in 1..(NM - 1) : ChiLe(ChiVal(Fit(src, p[a])), ChiVal(Fit(src, p[a + 1])))}
RankExists == OK => Rankings # {}
PredMatches ==   \* predicted log flux = model + A_V k - 2 scale, band by band (x20)
  OK => \A m \in 1..NM : LET r == Fit(src, m) IN
          \A j \in Bands(src) :
             r.pred20[j] = RSub(RSub(RInt(5 * Grid[m][j]), RScale(K[j], r.u)), r.v)
             /\ (j \in Fitted(src) =>    \* data - prediction is the residual t_j
                   RSub(RInt(5 * src.Y[j]), r.pred20[j]) = T(src, Grid[m], K, r.u, r.v, j))

(* C11: invariances of the kernel *)
Perms == {p \in [Bands(src) -> Bands(src)] : \A a, b \in Bands(src) : a # b => p[a] # p[b]}
PSeq(s, p) == [j \in 1..Len(s) |-> s[p[j]]]
PermuteBands ==
  OK => \A p \in Perms : \A m \in 1..NM :
          LET s2 == [flag |-> PSeq(src.flag, p), Y |-> PSeq(src.Y, p), W |-> PSeq(src.W, p), P |-> PSeq(src.P, p)]
              a == FitIndep(s2, PSeq(Grid[m], p), PSeq(K, p), ULo, UHi)
              b == Fit(src, m)
          IN  a.u = b.u /\ a.v = b.v /\ a.big = b.big /\ a.chi = b.chi /\ a.pred20 = PSeq(b.pred20, p)
\* the same for a transposition, the rotation and the reversal only (used on 4-band sources, where 24 permutations x every
\* state is too slow for the quick tier)
SomePerms == LET n == Len(src.flag) IN
             IF n < 2 THEN {} ELSE
             { [j \in 1..n |-> IF j = 1 THEN 2 ELSE IF j = 2 THEN 1 ELSE j],
               [j \in 1..n |-> (j % n) + 1],
               [j \in 1..n |-> n + 1 - j] }
PermuteBandsSome ==
  OK => \A p \in SomePerms : \A m \in 1..NM :
          LET s2 == [flag |-> PSeq(src.flag, p), Y |-> PSeq(src.Y, p), W |-> PSeq(src.W, p), P |-> PSeq(src.P, p)]
              a == FitIndep(s2, PSeq(Grid[m], p), PSeq(K, p), ULo, UHi)
              b == Fit(src, m)
          IN  a.u = b.u /\ a.v = b.v /\ a.big = b.big /\ a.chi = b.chi /\ a.pred20 = PSeq(b.pred20, p)
\* the extinction pattern only fixes the UNIT of A_V: coefficients twice as large (and a range half as wide) give half the A_V and
\* the same scale, chi^2 and predictions.  (All A_V ranges of this instance are even.)  The replay uses this with a factor 2^-13:
\* coefficients that are tiny but unequal -- a far-infrared filter set -- are as good as any others.
ScaleK ==
  OK => \A m \in 1..NM :
          LET a == FitIndep(src, Grid[m], [j \in 1..Len(K) |-> 2 * K[j]], ULo \div 2, UHi \div 2)
              b == Fit(src, m)
          IN  a.u = RDiv(b.u, RInt(2)) /\ a.v = b.v /\ a.big = b.big /\ a.chi = b.chi /\ a.pred20 = b.pred20
ScaleFlux ==
  OK => \A c \in {-8, -2, 2, 8} : \A m \in 1..NM :
          LET s2 == [src EXCEPT !.Y = [j \in Bands(src) |-> src.Y[j] + c]]
              a == Fit(s2, m)  b == Fit(src, m)
          IN  a.u = b.u /\ a.v = RSub(b.v, RInt(5 * c)) /\ a.big = b.big /\ a.chi = b.chi

----------------------------------------------------------------------------
(* behaviour emission *)
Checksum == SumSeq([j \in Bands(src) |-> (src.flag[j] * 7 + src.Y[j] * 13 + src.W[j] * 3 + src.P[j] * 5 + 1000) * (j + 1)])
            + cfg.g * 17 + cfg.k * 29 + cfg.r * 31
Pick == Len(src.flag) = NBands /\ (Checksum % SampleMod) = SampleRes
Row(m) == IF Singular(src, K) THEN [sing |-> TRUE]
          ELSE LET r == Fit(src, m) IN
               [sing |-> FALSE, u |-> r.u, v |-> r.v, big |-> r.big, chi |-> r.chi,
                boundary |-> r.boundary, pred20 |-> r.pred20]
EmitInv == Pick => PrintT(ToJson([src |-> src, K |-> [j \in 1..NBands |-> K[j]], ulo |-> ULo, uhi |-> UHi,
                                   grid |-> [m \in 1..NM |-> [j \in 1..NBands |-> Grid[m][j]]],
                                   cfg |-> cfg, ndata |-> NData(src),
                                   rows |-> [m \in 1..NM |-> Row(m)]]))
=============================================================================
