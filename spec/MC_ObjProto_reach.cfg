SPECIFICATION Spec
CONSTANTS
  MaxOps = 3
INVARIANT NeverSelfBlocked
INVARIANT ShapeConsistent
CHECK_DEADLOCK FALSE
