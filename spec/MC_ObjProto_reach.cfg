SPECIFICATION Spec
CONSTANTS
  MaxOps = 3
INVARIANT NeverSelfBlocked
INVARIANT ShapeConsistent
INVARIANT SedNeverSelfBlocked
CHECK_DEADLOCK FALSE
