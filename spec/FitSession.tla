----------------------------- MODULE FitSession -----------------------------
(***************************************************************************)
(* The main machine: a run of sedfitter.fit() over a data file (the code's *)
(* read-line / skip / fit / keep / append loop), reading the output file   *)
(* back, post-processing calls on a file, one result object or a list of   *)
(* result objects, and filter_output.  C10, C18 (and the keep events of    *)
(* C05 inside a run).                                                      *)
(*                                                                         *)
(* Fits come from FitKernel (A_V fixed to U/4 so that chi^2 is a multiple  *)
(* of 1/Unit), selection from Select.  A record is [sid, n, pred]: the     *)
(* pool source it belongs to, how many fits of that source's ranking are   *)
(* kept (always a prefix), whether predicted fluxes are stored.            *)
(***************************************************************************)
EXTENDS FitKernel, TLC
S == INSTANCE Select

CONSTANTS Pool,     \* sequence of abstract sources [flag, Y, W, P]
          Grid,     \* sequence of models (quarter-dex log fluxes per band)
          KPat,     \* extinction pattern K_j
          U,        \* the fixed A_V in u units (ULo = UHi = U)
          Unit,     \* chi^2 values are integer multiples of 1/Unit
          MaxLines, NMins, OutSels, PostSels, Forms, Kinds, MaxPosts, SplitThr

VARIABLES pc,       \* "start" "read" "fit" "append" "done" "end"
          run,      \* [lines, nmin, sel, conv]: the arguments of fit()
          pos,      \* index of the next data-file line
          cur,      \* record under construction
          file,     \* the fit output file: Seq of records
          objs,     \* in-memory result objects (after reading the file back)
          nposts,
          hist      \* calls made after the run, with the output the spec expects
vars == <<pc, run, pos, cur, file, objs, nposts, hist>>

NM == Len(Grid)
FitOf(sid, m) == FitIndep(Pool[sid], Grid[m], KPat, U, U)
AbsChi(r) == IF r.big > 0 THEN S!Big(r.big) ELSE S!Fin(Num(RScale(Unit, r.chi)))
UnitOK == \A sid \in 1..Len(Pool) : ~Singular(Pool[sid], KPat) =>
             \A m \in 1..NM : Den(RScale(Unit, FitOf(sid, m).chi)) = 1
\* a ranking of the models of source sid: sorted by chi^2, ties by package index
RankedBefore(sid, a, b) == LET x == AbsChi(FitOf(sid, a))  y == AbsChi(FitOf(sid, b))
                           IN  IF x = y THEN a < b ELSE S!SortLe(x, y)
Ranking(sid) == CHOOSE p \in [1..NM -> 1..NM] :
                   /\ \A a, b \in 1..NM : a # b => p[a] # p[b]
                   /\ \A a, b \in 1..NM : a < b => RankedBefore(sid, p[a], p[b])
\* constant-level tables (TLC evaluates them once)
\* a source whose regression is singular (fewer than two fitted points, or one extinction coefficient for all of them) is
\* reached when n_data_min admits it: every sum of its normal equations cancels (0/0), so every model gets chi^2 = NaN and the
\* ranking is free
RankTab == [sid \in 1..Len(Pool) |-> IF Singular(Pool[sid], KPat) THEN [i \in 1..NM |-> i] ELSE Ranking(sid)]
ChiTab  == [sid \in 1..Len(Pool) |-> IF Singular(Pool[sid], KPat) THEN [i \in 1..NM |-> S!NaN]
                                      ELSE [i \in 1..NM |-> AbsChi(FitOf(sid, RankTab[sid][i]))]]
NDTab   == [sid \in 1..Len(Pool) |-> NData(Pool[sid])]
ChiVec(sid) == ChiTab[sid]
ND(sid) == NDTab[sid]
Counts(sid, n, sel) == S!KeepCounts(S!Prefix(ChiVec(sid), n), sel, ND(sid))

----------------------------------------------------------------------------
\* a data-file line is a pool index, or 0 for a line with fewer than 3 columns
Init == /\ pc = "start" /\ run = [lines |-> <<>>, nmin |-> 0, sel |-> [f |-> "A", v |-> 0], conv |-> FALSE]
        /\ pos = 1 /\ cur = [sid |-> 0, n |-> 0, pred |-> FALSE]
        /\ file = <<>> /\ objs = <<>> /\ nposts = 0 /\ hist = <<>>

\* the data file is written line by line, then fit() is called with its arguments
AddLine(x) == /\ pc = "start" /\ Len(run.lines) < MaxLines
              /\ run' = [run EXCEPT !.lines = Append(@, x)]
              /\ UNCHANGED <<pc, pos, cur, file, objs, nposts, hist>>
Start == /\ pc = "start" /\ Len(run.lines) >= 1
         /\ \E nm \in NMins, s \in OutSels, c \in BOOLEAN :
               run' = [run EXCEPT !.nmin = nm, !.sel = s, !.conv = c]
         /\ pc' = "read" /\ UNCHANGED <<pos, cur, file, objs, nposts, hist>>

\* s = Source.from_ascii(data_file.readline())
ReadLine == /\ pc = "read"
            /\ IF pos > Len(run.lines) \/ run.lines[pos] = 0
               THEN pc' = "done" /\ UNCHANGED <<pos, cur>>                        \* EOFError: break
               ELSE IF ND(run.lines[pos]) < run.nmin
                    THEN pc' = "read" /\ pos' = pos + 1 /\ UNCHANGED cur           \* skipped
                    ELSE pc' = "fit" /\ cur' = [sid |-> run.lines[pos], n |-> NM, pred |-> TRUE] /\ UNCHANGED pos
            /\ UNCHANGED <<run, file, objs, nposts, hist>>
\* info = fitter.fit(s); drop predicted fluxes unless requested; info.keep(output_format)
FitKeep == /\ pc = "fit"
           /\ \E n \in Counts(cur.sid, NM, run.sel) : cur' = [cur EXCEPT !.n = n, !.pred = run.conv]
           /\ pc' = "append" /\ UNCHANGED <<run, pos, file, objs, nposts, hist>>
\* fout.write(info)
AppendRec == /\ pc = "append"
             /\ file' = Append(file, cur) /\ pos' = pos + 1 /\ pc' = "read"
             /\ UNCHANGED <<run, cur, objs, nposts, hist>>

\* iterate FitInfoFile(path, 'r'): fresh objects, one per record
Load == /\ pc = "done" /\ objs = <<>> /\ file # <<>>
        /\ objs' = file
        /\ hist' = Append(hist, [act |-> "Load", n |-> Len(file)])
        /\ UNCHANGED <<pc, run, pos, cur, file, nposts>>

Input(form) == CASE form = "path" -> file [] form = "list" -> objs [] form = "obj" -> <<objs[1]>>
\* what a listing shows per source: name, n_data, n_fits (admissible set) of the selection
PostOut(recs, sel) == [i \in 1..Len(recs) |->
                         LET K2 == Counts(recs[i].sid, recs[i].n, sel)
                         IN  [sid |-> recs[i].sid, nd |-> ND(recs[i].sid),
                              lo |-> CHOOSE a \in K2 : \A b \in K2 : a <= b,
                              hi |-> CHOOSE a \in K2 : \A b \in K2 : a >= b]]
Post(kind, form, sel) ==
  /\ pc = "done" /\ objs # <<>> /\ nposts < MaxPosts
  /\ hist' = Append(hist, [act |-> "Post", kind |-> kind, form |-> form, sel |-> sel,
                           out |-> PostOut(Input(form), sel)])
  /\ nposts' = nposts + 1
  /\ UNCHANGED <<pc, run, pos, cur, file, objs>>          \* PostPure: results are left unchanged

BestChi(rec) == ChiVec(rec.sid)[1]
\* filter_output: good iff best chi^2 (or chi^2 per fitted point) is below the threshold
Good(rec, crit, thr) == IF rec.n = 0 THEN "empty"
                        ELSE S!LeDiv(BestChi(rec), IF crit = "chi" THEN 1 ELSE ND(rec.sid), thr)
Split(form, crit, thr) ==
  /\ pc = "done" /\ objs # <<>> /\ nposts < MaxPosts /\ form \in {"path", "list"}
  /\ \A i \in 1..Len(Input(form)) : Input(form)[i].n > 0
  /\ hist' = Append(hist, [act |-> "Split", form |-> form, crit |-> crit, thr |-> thr,
                           verdict |-> [i \in 1..Len(Input(form)) |-> Good(Input(form)[i], crit, thr)]])
  /\ nposts' = nposts + 1
  /\ UNCHANGED <<pc, run, pos, cur, file, objs>>

Finish == /\ pc = "done" /\ (file = <<>> \/ objs # <<>>) /\ pc' = "end"
          /\ UNCHANGED <<run, pos, cur, file, objs, nposts, hist>>

Next == \/ (\E x \in 0..Len(Pool) : AddLine(x)) \/ Start \/ ReadLine \/ FitKeep \/ AppendRec \/ Load \/ Finish
        \/ \E k \in Kinds, f \in Forms, s \in PostSels : Post(k, f, s)
        \/ \E f \in Forms, c \in {"chi", "cpd"}, t \in SplitThr : Split(f, c, t)
Spec == Init /\ [][Next]_vars /\ WF_vars(ReadLine \/ FitKeep \/ AppendRec)

----------------------------------------------------------------------------
(* C10: the file holds exactly one record per eligible line before the first short line,  *)
(* in input order, each being Keep(Fit(src), sel), predicted fluxes iff requested           *)
RECURSIVE Eligible(_, _, _)
Eligible(ls, i, nmin) == IF i > Len(ls) \/ ls[i] = 0 THEN <<>>
                         ELSE IF ND(ls[i]) >= nmin THEN <<ls[i]>> \o Eligible(ls, i + 1, nmin)
                         ELSE Eligible(ls, i + 1, nmin)
FileFaithful ==
  pc \in {"done", "end"} =>
     LET el == Eligible(run.lines, 1, run.nmin)
     IN  /\ Len(file) = Len(el)
         /\ \A i \in 1..Len(el) : /\ file[i].sid = el[i]
                                  /\ file[i].n \in Counts(el[i], NM, run.sel)
                                  /\ file[i].pred = run.conv
\* during the run the file is always a prefix of what it will finally be
FileStep == pc \in {"read", "fit", "append"} =>
               (file' = file \/ (Len(file') = Len(file) + 1 /\ SubSeq(file', 1, Len(file)) = file))
FileGrowsOnly == [][FileStep]_vars
PureStep == (pc = "done" /\ pc' = "done" /\ objs # <<>>) => (file' = file /\ objs' = objs)
PostPure == [][PureStep]_vars
RunTerminates == (pc = "read") ~> (pc = "done")
\* C18: every source in exactly one of the two files (a verdict per record, nothing else)
SplitTotal == \A i \in 1..Len(hist) : hist[i].act = "Split" =>
                 \A j \in 1..Len(hist[i].verdict) : hist[i].verdict[j] \in {"T", "F", "B"}
=============================================================================
