--------------------------- MODULE Trace_Extinction ---------------------------
(* Recorded Extinction.get_av calls on random tables (2..N rows, after random   *)
(* conversions) validated against ExtinctionLaw (C14).  One trace: "Law" event  *)
(* (the table as built), then "Conv" and "Query" events.                        *)
EXTENDS ExtinctionLaw, TLC, Json, IOUtils, SequencesExt, FiniteSetsExt
Traces == JsonDeserialize(IOEnv.TRACE_FILE)
VARIABLES tid, l, tab, viol
vars == <<tid, l, tab, viol>>
Tr == Traces[tid]
Init == tid \in 1..Len(Traces) /\ l = 1 /\ tab = [w |-> <<>>, c |-> <<>>] /\ viol = {}
EvLaw == /\ l = 1 /\ l <= Len(Tr) /\ Tr[l].ev = "Law"
         /\ tab' = [w |-> Tr[l].w, c |-> Tr[l].c]
         /\ viol' = IF Covers([w |-> Tr[l].w, c |-> Tr[l].c]) THEN {} ELSE {<<l, "law.does_not_cover_V">>}
         /\ l' = l + 1 /\ UNCHANGED tid
\* a conversion (pickle / table / file / units / scaling of chi) is the identity on the law
EvConv == /\ l > 1 /\ l <= Len(Tr) /\ Tr[l].ev = "Conv"
          /\ viol' = viol \cup (IF Tr[l].raised = 0 THEN {} ELSE {<<l, "conv.raised">>})
          /\ l' = l + 1 /\ UNCHANGED <<tid, tab>>
EvQuery == /\ l > 1 /\ l <= Len(Tr) /\ Tr[l].ev = "Query"
           \* BOUNDARY: a query exactly on the first/last node that went through a unit conversion may
           \* fall 1 ulp outside the table (0); without conversion it must be exact
           /\ viol' = viol \cup (IF \/ Close(Tr[l].av, GetAv(tab, Tr[l].q))
                                    \/ (Tr[l].conv = 1 /\ Tr[l].q \in {tab.w[1], tab.w[Len(tab.w)]} /\ Tr[l].av[1] = 0)
                                 THEN {} ELSE {<<l, "query.value">>})
           /\ l' = l + 1 /\ UNCHANGED <<tid, tab>>
EvBad == /\ l <= Len(Tr) /\ ~(Tr[l].ev = "Law" /\ l = 1) /\ ~(Tr[l].ev \in {"Conv", "Query"} /\ l > 1)
         /\ viol' = viol \cup {<<l, "unknown.event">>} /\ l' = l + 1 /\ UNCHANGED <<tid, tab>>
Done == /\ l = Len(Tr) + 1
        /\ PrintT(ToJson([tid |-> tid, ok |-> (viol = {}), viol |-> SetToSeq(viol)]))
        /\ l' = l + 1 /\ UNCHANGED <<tid, tab, viol>>
Next == EvLaw \/ EvConv \/ EvQuery \/ EvBad \/ Done
Spec == Init /\ [][Next]_vars
=============================================================================
