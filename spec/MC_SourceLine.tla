---------------------------- MODULE MC_SourceLine ----------------------------
(* Every line of up to MaxCols tokens over the four token classes (built token  *)
(* by token so that TLC's workers share the enumeration).                       *)
EXTENDS SourceLine, TLC, Json
CONSTANTS MaxCols, Classes, SampleMod, SampleRes
VARIABLES cols
Init == cols = <<>>
AddTok(c) == Len(cols) < MaxCols /\ cols' = Append(cols, [c |-> c, p |-> Len(cols) + 1])
Next == \E c \in Classes : AddTok(c)
Spec == Init /\ [][Next]_cols

LayoutInv    == ParsedByLayoutOrRejected(cols)
RoundTripInv == RoundTrip(cols)

CNum(c) == CASE c = "F" -> 1 [] c = "B" -> 2 [] c = "N" -> 3 [] c = "S" -> 5
RECURSIVE Sum(_)
Sum(s) == IF s = <<>> THEN 0 ELSE Head(s) + Sum(Tail(s))
Checksum == Sum([i \in 1..Len(cols) |-> CNum(cols[i].c) * (i * i + 3)])
R2J(r) == IF r.k = "ok" THEN [k |-> "ok", name |-> r.name.p, x |-> r.x.p, y |-> r.y.p,
                              valid |-> [i \in 1..Len(r.valid) |-> r.valid[i].p],
                              flux |-> [i \in 1..Len(r.flux) |-> r.flux[i].p],
                              err |-> [i \in 1..Len(r.err) |-> r.err[i].p]]
          ELSE [k |-> r.k]
EmitInv == (Checksum % SampleMod = SampleRes) =>
             PrintT(ToJson([cols |-> [i \in 1..Len(cols) |-> cols[i].c], res |-> R2J(ParseAlg(cols))]))
=============================================================================
