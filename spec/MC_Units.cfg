SPECIFICATION Spec
CONSTANTS
  Ps = {0, 3}
  Ks = {11, 14}
  Js = {18, 21}
  MaxHops = 2
INVARIANT RoundTrip
INVARIANT PathIndependent
INVARIANT FamilyRelations
INVARIANT ChainIsDirect
INVARIANT EmitInv
CHECK_DEADLOCK FALSE
