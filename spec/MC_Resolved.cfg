SPECIFICATION Spec
INVARIANT NeverReportedWhereResolved
INVARIANT EmitInv
CHECK_DEADLOCK FALSE
