SPECIFICATION Spec
INVARIANT AcceptedArrayIsRight
INVARIANT RightArrayAccepted
INVARIANT AcceptedScalarInDomain
INVARIANT EmitInv
CHECK_DEADLOCK FALSE
