SPECIFICATION Spec
CONSTANTS
  XNodes = {1, 2, 3, 5, 6}
  YVals = {0, 1, 3}
  YOff = 1
  MaxN = 4
  Q2Lo = 0
  Q2Hi = 14
  SampleMod = 1
  SampleRes = 0
INVARIANT InterpMatches
INVARIANT ScalarIgnoresFill
INVARIANT ArrayIsPointwise
INVARIANT ArrayRefusesAnyOutside
INVARIANT FirstKnotExact
INVARIANT IntSubMatches
INVARIANT IntSubSymmetric
INVARIANT IntSubAdditive
INVARIANT EmptyWindowIsZeroEvenOutside
INVARIANT WholeIsIntegral
INVARIANT EmitInv
CHECK_DEADLOCK FALSE
