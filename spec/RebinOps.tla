------------------------------- MODULE RebinOps -------------------------------
(***************************************************************************)
(* C06.  Filter.rebin: a filter is a piecewise-linear response R(nu) on    *)
(* integer frequency nodes fx (increasing) with non-negative integer       *)
(* values fy; an SED grid is a sequence gx of increasing EVEN integers     *)
(* (so that the midpoints between adjacent grid frequencies are integers). *)
(* Bin i runs from the midpoint with the previous grid frequency (or the   *)
(* first grid frequency) to the midpoint with the next one (or the last),  *)
(* clipped to the filter's range; R_i is the exact integral of R over it.  *)
(***************************************************************************)
EXTENDS PwLin
Fn(fx, fy) == [x |-> [i \in 1..Len(fx) |-> RInt(fx[i])], y |-> [i \in 1..Len(fy) |-> RInt(fy[i])]]
Lo(gx, i) == IF i = 1 THEN gx[1] ELSE (gx[i - 1] + gx[i]) \div 2
Hi(gx, i) == IF i = Len(gx) THEN gx[Len(gx)] ELSE (gx[i] + gx[i + 1]) \div 2
ClipI(v, a, b) == IF v < a THEN a ELSE IF v > b THEN b ELSE v
\* ALGORITHM LAYER (Filter.rebin + integrate_subset): clip both bin edges to the filter range,
\* integrate the piecewise-linear response between them if they differ
BinResponse(fx, fy, gx, i) ==
  LET a == ClipI(Lo(gx, i), fx[1], fx[Len(fx)])
      b == ClipI(Hi(gx, i), fx[1], fx[Len(fx)])
  IN  IF a = b THEN Zero ELSE IntegralBetween(Fn(fx, fy), RInt(a), RInt(b))
Rebin(fx, fy, gx) == [i \in 1..Len(gx) |-> BinResponse(fx, fy, gx, i)]
\* PROPERTY LAYER helpers
OverlapLo(fx, gx) == IF fx[1] > gx[1] THEN fx[1] ELSE gx[1]
OverlapHi(fx, gx) == IF fx[Len(fx)] < gx[Len(gx)] THEN fx[Len(fx)] ELSE gx[Len(gx)]
OverlapIntegral(fx, fy, gx) == IF OverlapLo(fx, gx) >= OverlapHi(fx, gx) THEN Zero
                               ELSE IntegralBetween(Fn(fx, fy), RInt(OverlapLo(fx, gx)), RInt(OverlapHi(fx, gx)))
FilterIntegral(fx, fy) == Integral(Fn(fx, fy))
\* convolution sums (convolve.py): flux = sum F_i R_i ; error^2 = sum (E_i R_i)^2
Conv(F, Rs) == RSumSeq([i \in 1..Len(Rs) |-> RScale(F[i], Rs[i])])
Err2(E, Rs) == RSumSeq([i \in 1..Len(Rs) |-> RMul(RScale(E[i], Rs[i]), RScale(E[i], Rs[i]))])
=============================================================================
