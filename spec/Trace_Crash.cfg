SPECIFICATION TSpec
CONSTANTS
  Sizes = {1}
  MaxRecs = 1
CHECK_DEADLOCK FALSE
