SPECIFICATION Spec
INVARIANT PlainNumbersAccepted
CHECK_DEADLOCK FALSE
