SPECIFICATION Spec
CONSTANTS
  MaxOps = 3
  MaxGen = 3
INVARIANT NeverPartial
INVARIANT NeverStale
CHECK_DEADLOCK FALSE
