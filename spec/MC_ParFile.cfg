SPECIFICATION Spec
CONSTANTS
  MaxLines = 3
INVARIANT LastWins
INVARIANT EmitInv
CHECK_DEADLOCK FALSE
