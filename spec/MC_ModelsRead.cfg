SPECIFICATION Spec
INVARIANT AgreeingFilesReadRight
INVARIANT TrustsRowOrder
INVARIANT EmitInv
CHECK_DEADLOCK FALSE
