SPECIFICATION PSpec
CONSTANTS
  Pool <- PoolDef
  Grid <- GridDef
  KPat <- KDef
  U = 4
  Unit <- UnitDef
  Par <- ParDef
  NPar = 2
  MaxLines = 1
  NMins = {2}
  OutSels = {}
  PostSels <- PostSelsDef
  Forms = {"path"}
  Kinds = {"write_parameters"}
  MaxPosts = 0
  SplitThr = {}
INVARIANT RowsFollowRanking
INVARIANT SortIsNeeded
INVARIANT EmitInv
CHECK_DEADLOCK FALSE
