SPECIFICATION Spec
CONSTANTS
  MaxLen = 3
  NNames = 3
INVARIANT NoTruncation
CHECK_DEADLOCK FALSE
