SPECIFICATION Spec
INVARIANT NoTruncation
CHECK_DEADLOCK FALSE
