----------------------------- MODULE Trace_Crash -----------------------------
(* Every truncation offset of real fit output files, validated against Crash. *)
(* Trace: event "File" (byte sizes of the blocks as written), then one "Cut"  *)
(* event per offset with what the real reader did.                            *)
EXTENDS Crash, Json, IOUtils, SequencesExt, FiniteSetsExt
Traces == JsonDeserialize(IOEnv.TRACE_FILE)
VARIABLES tid, l, bl, viol
tvars == <<tid, l, bl, viol>>
Tr == Traces[tid]
TInit == tid \in 1..Len(Traces) /\ l = 1 /\ bl = <<>> /\ viol = {} /\ Init
EvFile == /\ l = 1 /\ l <= Len(Tr) /\ Tr[l].ev = "File"
          /\ bl' = Tr[l].sizes
          /\ viol' = IF Len(Tr[l].sizes) >= 4 THEN {} ELSE {<<l, "file.no_record">>}
          /\ l' = l + 1 /\ UNCHANGED tid /\ UNCHANGED vars
EvCut == /\ l > 1 /\ l <= Len(Tr) /\ Tr[l].ev = "Cut"
         /\ LET e == Tr[l]
                r == ReadResult(bl, e.k)
            IN  viol' = viol
                 \cup (IF e.n <= Len(bl) - 3 THEN {} ELSE {<<l, "cut.invented_record">>})
                 \cup (IF \A i \in 1..Len(e.equal) : e.equal[i] = 1 THEN {} ELSE {<<l, "cut.wrong_record">>})
                 \* to the letter of C19: the reader may fail early, but it may not open a file whose
                 \* metadata is incomplete, nor yield a record that is not wholly before the cut
                 \cup (IF e.opened = 1 /\ ~r.opened THEN {<<l, "cut.opened_without_metadata">>} ELSE {})
                 \cup (IF e.n > r.n THEN {<<l, "cut.record_beyond_cut">>} ELSE {})
         /\ l' = l + 1 /\ UNCHANGED <<tid, bl>> /\ UNCHANGED vars
EvBad == /\ l <= Len(Tr) /\ ~(Tr[l].ev = "File" /\ l = 1) /\ ~(Tr[l].ev = "Cut" /\ l > 1)
         /\ viol' = viol \cup {<<l, "unknown.event">>} /\ l' = l + 1 /\ UNCHANGED <<tid, bl>> /\ UNCHANGED vars
Done == /\ l = Len(Tr) + 1
        /\ PrintT(ToJson([tid |-> tid, ok |-> (viol = {}), viol |-> SetToSeq(viol)]))
        /\ l' = l + 1 /\ UNCHANGED <<tid, bl, viol>> /\ UNCHANGED vars
TNext == EvFile \/ EvCut \/ EvBad \/ Done
TSpec == TInit /\ [][TNext]_<<tvars, vars>>
=============================================================================
