SPECIFICATION Spec
CONSTANTS
  MaxN = 5
INVARIANT EmitsExactlyInRange
INVARIANT NeverOutside
INVARIANT ChunkIndependent
INVARIANT HarmonicProbeSeparates
INVARIANT EmitInv
PROPERTY EachOnce
PROPERTY Terminates
CHECK_DEADLOCK FALSE
