----------------------------- MODULE FileProtocol -----------------------------
(***************************************************************************)
(* Extension beyond the listed properties (supports C10): the protocol of  *)
(* FitInfoFile on a path.  One handle at a time on one path.               *)
(*   open 'w'  : fresh stream, no metadata yet                             *)
(*   write(i)  : in 'w' only; the first record fixes the metadata, a later *)
(*               record with different metadata is refused; refused in 'r' *)
(*   open 'r'  : loads the metadata (fails on a file without any record)   *)
(*   iterate   : in 'r' only; yields the records from the handle position  *)
(*               to the end (a second iteration of the same handle yields  *)
(*               nothing); refused in 'w'                                  *)
(*   meta      : in 'r' the file's metadata; refused in 'w'                *)
(*   close                                                                 *)
(* Records carry a metadata id (1 or 2) and a serial number.               *)
(***************************************************************************)
EXTENDS Integers, Sequences, TLC, Json
CONSTANTS MaxOps
VARIABLES disk,     \* records on disk: Seq of [meta, serial]
          mode,     \* "closed" | "r" | "w"
          pos,      \* read handle: index of the next record
          serial, hist
vars == <<disk, mode, pos, serial, hist>>
Init == disk = <<>> /\ mode = "closed" /\ pos = 1 /\ serial = 0 /\ hist = <<>>
Log(op, res) == hist' = Append(hist, [op |-> op, res |-> res])
Can == Len(hist) < MaxOps

OpenW == /\ Can /\ mode = "closed" /\ disk' = <<>> /\ mode' = "w" /\ pos' = 1 /\ Log("open_w", "ok") /\ UNCHANGED serial
OpenR == /\ Can /\ mode = "closed"
         /\ IF disk = <<>> THEN mode' = "closed" /\ Log("open_r", "error")      \* zero-byte file: metadata cannot be loaded
            ELSE mode' = "r" /\ Log("open_r", "ok")
         /\ pos' = 1 /\ UNCHANGED <<disk, serial>>
Write(m) == /\ Can /\ mode \in {"r", "w"}
            /\ serial' = serial + 1
            /\ IF mode = "w" /\ (disk = <<>> \/ disk[1].meta = m)
               THEN disk' = Append(disk, [meta |-> m, serial |-> serial + 1]) /\ Log(IF m = 1 THEN "write_m1" ELSE "write_m2", "ok")
               ELSE disk' = disk /\ Log(IF m = 1 THEN "write_m1" ELSE "write_m2", "error")
            /\ UNCHANGED <<mode, pos>>
Iterate == /\ Can /\ mode \in {"r", "w"}
           /\ IF mode = "r"
              THEN pos' = Len(disk) + 1 /\ Log("iterate", [i \in 1..(Len(disk) - pos + 1) |-> disk[pos + i - 1].serial])
              ELSE pos' = pos /\ Log("iterate", "error")
           /\ UNCHANGED <<disk, mode, serial>>
Meta == /\ Can /\ mode \in {"r", "w"}
        /\ Log("meta", IF mode = "r" THEN disk[1].meta ELSE 0)                   \* 0 = refused
        /\ UNCHANGED <<disk, mode, pos, serial>>
Close == /\ Can /\ mode \in {"r", "w"} /\ mode' = "closed" /\ Log("close", "ok") /\ UNCHANGED <<disk, pos, serial>>
Next == OpenW \/ OpenR \/ Write(1) \/ Write(2) \/ Iterate \/ Meta \/ Close
Spec == Init /\ [][Next]_vars

\* one metadata per file; serials on disk increase; reading never changes the disk
OneMeta == \A i \in 1..Len(disk) : disk[i].meta = disk[1].meta
Ordered == \A i \in 1..(Len(disk) - 1) : disk[i].serial < disk[i + 1].serial
ReadOnly == [][mode = "r" /\ mode' = "r" => disk' = disk]_vars
EmitInv == Len(hist) = MaxOps => PrintT(ToJson(hist))
=============================================================================
