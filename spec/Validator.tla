------------------------------ MODULE Validator ------------------------------
(***************************************************************************)
(* X09 (extension).  sedfitter/utils/validator.py: the decision tables of  *)
(* validate_array and validate_scalar, which every attribute setter of     *)
(* SED, SEDCube, ConvolvedFluxes, Filter, Extinction and Fitter goes       *)
(* through.  A call is one step: (value kind, requirements) -> outcome.    *)
(* ALGORITHM LAYER = the order of the tests as written.  PROPERTY LAYER =   *)
(* what a caller may rely on.  Named behaviour: ScalarRejectsPlainNumbers  *)
(* (validate_scalar without a physical type refuses every plain number:    *)
(* its test reads `np.isscalar(value) or ...` where `not np.isscalar` is    *)
(* meant; no caller in the library uses that path).                         *)
(***************************************************************************)
EXTENDS Integers, Sequences, TLC, Json
\* value kinds: container (list | tuple | ndarray | scalar | string), dimensionality, length of a 1-d value, and, for quantities,
\* whether the unit has the required physical type
Containers == {"list", "tuple", "ndarray", "scalar", "string"}
VARIABLES call
Init == call \in [fn : {"array"}, cont : Containers, quantity : {"none", "right", "wrong"}, ndim : 0..2, len : 1..3,
                  need_type : BOOLEAN, need_ndim : 1..2, need_len : 0..3]       \* need_len = 0: no shape requirement
        \cup [fn : {"scalar"}, cont : {"scalar", "ndarray"}, quantity : {"none", "right", "wrong"}, ndim : {0}, len : {1},
              need_type : BOOLEAN, need_ndim : {1}, need_len : {0},
              sign : {"neg", "zero", "pos"}, domain : {"none", "positive", "strictly-positive", "negative", "strictly-negative"}]
Spec == Init /\ [][UNCHANGED call]_call

\* a value is well formed: scalars/strings have no dimensions, lists and tuples of numbers are 1-d here
WellFormed == /\ (call.cont \in {"scalar", "string"} => call.ndim = 0)
              /\ (call.cont \in {"list", "tuple"} => call.ndim = 1)
              /\ (call.cont = "ndarray" => call.ndim \in 1..2 \/ call.fn = "scalar")
              /\ (call.quantity # "none" => call.cont \in {"ndarray", "scalar"})     \* only arrays / numbers carry units

\* ALGORITHM: validate_physical_type, then (array) list/tuple -> ndarray, ndim test, shape test
PhysOutcome == IF ~call.need_type THEN "ok"
               ELSE IF call.quantity = "none" THEN "TypeError"
               ELSE IF call.quantity = "wrong" THEN "TypeError" ELSE "ok"
ArrayOutcome ==
  IF PhysOutcome # "ok" THEN PhysOutcome
  ELSE IF call.cont \in {"scalar", "string"} \/ call.ndim # call.need_ndim THEN "TypeError"
  ELSE IF call.need_len # 0 /\ call.ndim = 1 /\ call.len # call.need_len THEN "ValueError"
  ELSE "ok"
SignOk == CASE call.domain = "none" -> TRUE
            [] call.domain = "positive" -> call.sign # "neg"
            [] call.domain = "strictly-positive" -> call.sign = "pos"
            [] call.domain = "negative" -> call.sign # "pos"
            [] call.domain = "strictly-negative" -> call.sign = "neg"
ScalarOutcome ==
  IF PhysOutcome # "ok" THEN PhysOutcome
  ELSE IF ~call.need_type /\ call.cont = "scalar" /\ call.quantity = "none" THEN "TypeError"   \* named behaviour ScalarRejectsPlainNumbers (np.isscalar is False for a Quantity or a 0-d array)
  ELSE IF ~SignOk THEN "ValueError"
  ELSE "ok"
Outcome == IF call.fn = "array" THEN ArrayOutcome ELSE ScalarOutcome

\* PROPERTY LAYER
\* an accepted array has the required dimensionality, length and physical type
AcceptedArrayIsRight == (WellFormed /\ call.fn = "array" /\ Outcome = "ok") =>
                          /\ call.ndim = call.need_ndim
                          /\ (call.need_len # 0 /\ call.ndim = 1 => call.len = call.need_len)
                          /\ (call.need_type => call.quantity = "right")
\* a right value is never refused
RightArrayAccepted == (WellFormed /\ call.fn = "array" /\ call.cont \in {"list", "tuple", "ndarray"} /\ call.ndim = call.need_ndim
                       /\ (call.need_len = 0 \/ call.ndim # 1 \/ call.len = call.need_len)
                       /\ (call.need_type => call.quantity = "right")) => Outcome = "ok"
\* unit problems are TypeErrors, length problems ValueErrors
AcceptedScalarInDomain == (WellFormed /\ call.fn = "scalar" /\ Outcome = "ok") => SignOk
\* reachability of the named behaviour (negated in MC_Validator_reach.cfg)
PlainNumbersAccepted == (WellFormed /\ call.fn = "scalar" /\ ~call.need_type /\ call.cont = "scalar" /\ call.quantity = "none" /\ SignOk) => Outcome = "ok"
EmitInv == WellFormed => PrintT(ToJson([call |-> call, out |-> Outcome]))
=============================================================================
