----------------------------- MODULE FitKernel -----------------------------
(***************************************************************************)
(* The fitting kernel of sedfitter (fitting_routines.py, Models.fit,       *)
(* Source.get_log_fluxes) in exact rational arithmetic on the lattice of   *)
(* DESIGN.md section 3.  Constant-level module.                            *)
(*                                                                         *)
(* Units.  log10 fluxes in quarter dex (integers): data Y_j, model E_j,    *)
(* residual R_j = Y_j - E_j.  Extinction coefficient k_j = -K_j/5          *)
(* (K_j \in Nat; V band has K = 2).  Unknowns  u = 4*A_V,  v = 40*scale;   *)
(* with these  20 * (r_j - A_V k_j + 2 scale) = 5 R_j + u K_j + v =: t_j   *)
(* so chi^2 = (1/400) * Sum_j W_j t_j^2 + penalties.  A_V range [ULo,UHi]  *)
(* is given in u units (quarter magnitudes).                               *)
(*                                                                         *)
(* A source is [flag, Y, W, P]: sequences over bands.  flag \in            *)
(* {0,1,2,3,4,9}; W_j \in {1,4,16} (1/sigma_log^2) is read for flags 1,4;  *)
(* P_j (penalty -2 ln(1-conf); -1 encodes conf = 1, i.e. +infinity) is     *)
(* read for flags 2,3; Y_j is read for flags 1,2,3,4.                      *)
(***************************************************************************)
EXTENDS Rat, FiniteSets

RECURSIVE SumSeq(_)
SumSeq(s) == IF s = <<>> THEN 0 ELSE Head(s) + SumSeq(Tail(s))

NB(src)      == Len(src.flag)
Bands(src)   == 1..NB(src)
Fitted(src)  == {j \in Bands(src) : src.flag[j] \in {1, 4}}
Limits(src)  == {j \in Bands(src) : src.flag[j] \in {2, 3}}
NData(src)   == Cardinality(Fitted(src))

(***************************************************************************)
(* ALGORITHM LAYER -- as the code does it: weights are ZERO for flags       *)
(* 0,2,3,9 and every reduction runs over ALL bands.                        *)
(***************************************************************************)
Wt(src, j) == IF src.flag[j] \in {1, 4} THEN src.W[j] ELSE 0
\* a band that carries no usable value contributes residual 0 (its weight is 0 anyway)
Res(src, E, j) == IF src.flag[j] \in {0, 9} THEN 0 ELSE src.Y[j] - E[j]

Sums(src, E, K) ==
  LET n == NB(src)
      w == [j \in 1..n |-> Wt(src, j)]
      r == [j \in 1..n |-> Res(src, E, j)]
  IN  [S1  |-> SumSeq([j \in 1..n |-> w[j]]),
       SK  |-> SumSeq([j \in 1..n |-> w[j] * K[j]]),
       SKK |-> SumSeq([j \in 1..n |-> w[j] * K[j] * K[j]]),
       SR  |-> SumSeq([j \in 1..n |-> w[j] * r[j]]),
       SKR |-> SumSeq([j \in 1..n |-> w[j] * K[j] * r[j]]),
       SRR |-> SumSeq([j \in 1..n |-> w[j] * r[j] * r[j]])]

Det(s) == s.SKK * s.S1 - s.SK * s.SK
Singular(src, K) == LET s == Sums(src, [j \in Bands(src) |-> 0], K) IN Det(s) = 0

\* linear_regression(): 2x2 normal equations
LSQ2(s) == LET det == Det(s)
           IN  [u |-> R(-5 * (s.SKR * s.S1 - s.SK * s.SR), det),
                v |-> R(-5 * (s.SKK * s.SR - s.SK * s.SKR), det),
                \* min chi^2 = SRR/16 - Q/(16 det)   (= (25 SRR - 25 Q/det)/400)
                lsq |-> RSub(R(s.SRR, 16),
                             R(s.S1 * s.SKR * s.SKR - 2 * s.SK * s.SKR * s.SR + s.SKK * s.SR * s.SR, 16 * det))]

\* optimal_scaling() for the scale after A_V has been clamped to the integer u
LSQ1(src, E, K, u) ==
  LET n == NB(src)
      g == [j \in 1..n |-> 5 * Res(src, E, j) + u * K[j]]
      S1 == SumSeq([j \in 1..n |-> Wt(src, j)])
      SG == SumSeq([j \in 1..n |-> Wt(src, j) * g[j]])
      SGG == SumSeq([j \in 1..n |-> Wt(src, j) * g[j] * g[j]])
  IN  [u |-> RInt(u), v |-> R(-SG, S1), lsq |-> RDiv(RSub(RInt(SGG), R(SG * SG, S1)), RInt(400))]

\* 20 * (data - model) for band j at (u, v): sign decides on which side of a limit we are
T(src, E, K, u, v, j) == RAdd(RAdd(RInt(5 * (src.Y[j] - E[j])), RScale(K[j], u)), v)

\* chi_squared(): limit penalties.  Returns [big, fin, boundary]
Penalties(src, E, K, u, v) ==
  LET viol(j) == LET t == RSign(T(src, E, K, u, v, j))
                 IN  (src.flag[j] = 2 /\ t > 0) \/ (src.flag[j] = 3 /\ t < 0)
      hit == {j \in Limits(src) : viol(j)}
  IN  [big |-> Cardinality({j \in hit : src.P[j] = -1}),
       fin |-> SumSeq([j \in Bands(src) |-> IF j \in hit /\ src.P[j] # -1 THEN src.P[j] ELSE 0]),
       boundary |-> {j \in Limits(src) : RSign(T(src, E, K, u, v, j)) = 0 /\ src.P[j] # 0}]

\* Models.fit, ndim == 2 branch, for one model E
FitIndep(src, E, K, ULo, UHi) ==
  LET s    == Sums(src, E, K)
      free == LSQ2(s)
      fit  == IF RLt(free.u, RInt(ULo)) THEN LSQ1(src, E, K, ULo)
              ELSE IF RLt(RInt(UHi), free.u) THEN LSQ1(src, E, K, UHi)
              ELSE free
      pen  == Penalties(src, E, K, fit.u, fit.v)
  IN  [u |-> fit.u, v |-> fit.v,
       big |-> pen.big,
       chi |-> RAdd(fit.lsq, RInt(pen.fin)),
       lsq |-> fit.lsq,
       boundary |-> pen.boundary # {},
       pred20 |-> [j \in Bands(src) |-> RSub(RSub(RInt(5 * E[j]), RScale(K[j], fit.u)), fit.v)]]

(***************************************************************************)
(* PROPERTY LAYER (C01): sums over the FITTED SET only; KKT conditions of   *)
(* the convex problem  min_{ULo<=u<=UHi, v}  Sum_F W_j (5R_j + uK_j + v)^2  *)
(***************************************************************************)
GradV(src, E, K, u, v) ==
  LET F == Fitted(src)
  IN  RSumSeq([j \in Bands(src) |-> IF j \in F THEN RScale(src.W[j], T(src, E, K, u, v, j)) ELSE Zero])
GradU(src, E, K, u, v) ==
  LET F == Fitted(src)
  IN  RSumSeq([j \in Bands(src) |-> IF j \in F THEN RScale(src.W[j] * K[j], T(src, E, K, u, v, j)) ELSE Zero])

KKT(src, E, K, ULo, UHi, r) ==
  /\ RLe(RInt(ULo), r.u) /\ RLe(r.u, RInt(UHi))
  /\ GradV(src, E, K, r.u, r.v) = Zero
  /\ LET g == GradU(src, E, K, r.u, r.v)
     IN  /\ (RLt(RInt(ULo), r.u) /\ RLt(r.u, RInt(UHi))) => g = Zero
         /\ (r.u = RInt(ULo) /\ ULo # UHi) => RSign(g) >= 0
         /\ (r.u = RInt(UHi) /\ ULo # UHi) => RSign(g) <= 0

\* Sum_F W t^2 at the optimum, computed a second way: Sum_F W t (5R) + u*GradU + v*GradV
ChiDirect400(src, E, K, r) ==
  LET F == Fitted(src)
      a == RSumSeq([j \in Bands(src) |-> IF j \in F
                      THEN RScale(src.W[j] * 5 * (src.Y[j] - E[j]), T(src, E, K, r.u, r.v, j)) ELSE Zero])
  IN  RAdd(a, RAdd(RMul(r.u, GradU(src, E, K, r.u, r.v)), RMul(r.v, GradV(src, E, K, r.u, r.v))))

\* integer competitor (u2, v2): 400 * chi^2_lsq there (integers only)
ChiAt400(src, E, K, u2, v2) ==
  SumSeq([j \in Bands(src) |-> IF j \in Fitted(src)
             THEN src.W[j] * (5 * (src.Y[j] - E[j]) + u2 * K[j] + v2) * (5 * (src.Y[j] - E[j]) + u2 * K[j] + v2)
             ELSE 0])
Floor(a) == a[1] \div a[2]
BestVFor(src, E, K, u2) ==   \* floor of the optimal v for integer u2
  LET F == Fitted(src)
      S1 == SumSeq([j \in Bands(src) |-> IF j \in F THEN src.W[j] ELSE 0])
      SG == SumSeq([j \in Bands(src) |-> IF j \in F THEN src.W[j] * (5 * (src.Y[j] - E[j]) + u2 * K[j]) ELSE 0])
  IN  (-SG) \div S1
Beats(src, E, K, ULo, UHi, r) ==
  LET fu == Floor(r.u)  fv == Floor(r.v)
      US == {x \in {ULo, UHi, fu - 1, fu, fu + 1, fu + 2} : ULo <= x /\ x <= UHi}
  IN  \A u2 \in US :
        \A v2 \in {fv - 1, fv, fv + 1, fv + 2, BestVFor(src, E, K, u2), BestVFor(src, E, K, u2) + 1} :
           RLe(RScale(400, r.lsq), RInt(ChiAt400(src, E, K, u2, v2)))

(***************************************************************************)
(* Distance-dependent kernel (Models.fit, ndim == 3 branch): per distance   *)
(* one-parameter fit of A_V, clip, chi^2, then argmin over the grid.        *)
(* L[i][j]: quarter-dex log10 of the model flux of band j scaled to         *)
(* distance i.                                                              *)
(***************************************************************************)
FitAtDist(src, Lrow, K, ULo, UHi) ==
  LET n   == NB(src)
      w   == [j \in 1..n |-> Wt(src, j)]
      r   == [j \in 1..n |-> Res(src, Lrow, j)]
      SKK == SumSeq([j \in 1..n |-> w[j] * K[j] * K[j]])
      SKR == SumSeq([j \in 1..n |-> w[j] * K[j] * r[j]])
      SRR == SumSeq([j \in 1..n |-> w[j] * r[j] * r[j]])
      free == R(-5 * SKR, SKK)
      cl  == IF RLt(free, RInt(ULo)) THEN ULo ELSE IF RLt(RInt(UHi), free) THEN UHi ELSE 0
      clamped == RLt(free, RInt(ULo)) \/ RLt(RInt(UHi), free)
      u   == IF clamped THEN RInt(cl) ELSE free
      lsq == IF clamped
             THEN R(SumSeq([j \in 1..n |-> w[j] * (5 * r[j] + cl * K[j]) * (5 * r[j] + cl * K[j])]), 400)
             ELSE RSub(R(SRR, 16), R(SKR * SKR, 16 * SKK))
      pen == Penalties(src, Lrow, K, u, Zero)
  IN  [u |-> u, big |-> pen.big, chi |-> RAdd(lsq, RInt(pen.fin)), lsq |-> lsq,
       boundary |-> pen.boundary # {},
       pred20 |-> [j \in 1..n |-> RSub(RInt(5 * Lrow[j]), RScale(K[j], u))]]
SingularDist(src, K) == SumSeq([j \in Bands(src) |-> Wt(src, j) * K[j] * K[j]]) = 0

\* total order on chi values [big, chi]
\* (float absorption: n * 1e30 + finite = n * 1e30, so among values with the same n > 0 all are equal)
ChiLt(a, b) == a.big < b.big \/ (a.big = b.big /\ a.big = 0 /\ RLt(a.chi, b.chi))
ChiLe(a, b) == a.big < b.big \/ (a.big = b.big /\ (a.big > 0 \/ RLe(a.chi, b.chi)))

\* set of admissible best-distance indices (ties: any)
BestDist(fits) == {i \in 1..Len(fits) : \A i2 \in 1..Len(fits) : ChiLe(fits[i], fits[i2])}
=============================================================================
