---------------------------- MODULE Trace_FitDist ----------------------------
(* Recorded distance-dependent fits (random cubes, 1-5 distances, 2-3 bands,    *)
(* 1-5 models) validated against FitKernel!FitAtDist + BestDist (C02).          *)
(* Trace: "Load" (K, A_V range, cube L[m][i][j]) then "Fit" events.             *)
EXTENDS FitKernel, TLC, Json, IOUtils, SequencesExt, FiniteSetsExt
Traces == JsonDeserialize(IOEnv.TRACE_FILE)
VARIABLES tid, l, fitter, viol
vars == <<tid, l, fitter, viol>>
Tr == Traces[tid]
Init == tid \in 1..Len(Traces) /\ l = 1 /\ fitter = [loaded |-> FALSE] /\ viol = {}
EvLoad == /\ l <= Len(Tr) /\ Tr[l].ev = "Load"
          /\ fitter' = [loaded |-> TRUE, K |-> Tr[l].K, ulo |-> Tr[l].ulo, uhi |-> Tr[l].uhi, cube |-> Tr[l].cube]
          /\ viol' = viol /\ l' = l + 1 /\ UNCHANGED tid
RowClauses(src, o) ==
  LET m == o.m
      nd == Len(fitter.cube[m])
      fs == [i \in 1..nd |-> FitAtDist(src, fitter.cube[m][i], fitter.K, fitter.ulo, fitter.uhi)]
  IN  IF \E i \in 1..nd : fs[i].boundary THEN {}            \* a limit exactly met at some distance: either chi^2, either minimum
      ELSE IF o.di < 1 \/ o.di > nd THEN {<<l, "row.scale_not_a_grid_distance">>}
      ELSE (IF o.di \in BestDist(fs) THEN {} ELSE {<<l, "row.not_the_grid_minimum">>})
      \cup (IF o.nan = 1 THEN {<<l, "row.nan">>}
            ELSE (IF Close(o.av, RDiv(fs[o.di].u, RInt(4))) THEN {} ELSE {<<l, "row.av">>})
            \cup (IF fs[o.di].big > 0 THEN (IF o.big = fs[o.di].big THEN {} ELSE {<<l, "row.chi2.big">>})
                  ELSE IF o.big = 0 /\ Close(o.chi, fs[o.di].chi) THEN {} ELSE {<<l, "row.chi2">>}))
EvFit == /\ l <= Len(Tr) /\ Tr[l].ev = "Fit" /\ fitter.loaded
         /\ LET e == Tr[l]
                src == [flag |-> e.flag, Y |-> e.Y, W |-> e.W, P |-> e.P]
                nm == Len(fitter.cube)
            IN  viol' = viol
                 \cup (IF Len(e.rows) = nm /\ {e.rows[i].m : i \in 1..Len(e.rows)} = 1..nm THEN {} ELSE {<<l, "fit.not_each_model_once">>})
                 \cup (IF SingularDist(src, fitter.K) THEN {} ELSE UNION {RowClauses(src, e.rows[i]) : i \in 1..Len(e.rows)})
         /\ l' = l + 1 /\ UNCHANGED <<tid, fitter>>
EvBad == /\ l <= Len(Tr) /\ ~(Tr[l].ev = "Load") /\ ~(Tr[l].ev = "Fit" /\ fitter.loaded)
         /\ viol' = viol \cup {<<l, "unknown.event">>} /\ l' = l + 1 /\ UNCHANGED <<tid, fitter>>
Done == /\ l = Len(Tr) + 1
        /\ PrintT(ToJson([tid |-> tid, ok |-> (viol = {}), viol |-> SetToSeq(viol)]))
        /\ l' = l + 1 /\ UNCHANGED <<tid, fitter, viol>>
Next == EvLoad \/ EvFit \/ EvBad \/ Done
Spec == Init /\ [][Next]_vars
=============================================================================
