SPECIFICATION Spec
CONSTANTS
  MaxLen = 6
  MaxKeeps = 0
  Emit = TRUE
INVARIANT EmitInv
CHECK_DEADLOCK FALSE
