SPECIFICATION Spec
CONSTANTS
  Sizes = {2, 3, 5}
  MaxRecs = 4
INVARIANT PrefixOrError
INVARIANT CleanStop
INVARIANT ReaderIsReadResult
PROPERTY Terminates
CHECK_DEADLOCK FALSE
