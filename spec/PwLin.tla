-------------------------------- MODULE PwLin --------------------------------
(***************************************************************************)
(* Piecewise-linear functions on rational knots, exactly (shared by the    *)
(* extinction law C14, aperture interpolation C13/C02/C17 and filter       *)
(* re-binning C06).  A function is [x |-> Seq(Rat), y |-> Seq(Rat)] with   *)
(* strictly increasing x.                                                  *)
(***************************************************************************)
EXTENDS Rat

NK(f) == Len(f.x)
InDomain(f, q) == RLe(f.x[1], q) /\ RLe(q, f.x[NK(f)])
\* index i of a segment [x_i, x_{i+1}] containing q (for q on a knot either neighbour works)
Seg(f, q) == CHOOSE i \in 1..(NK(f) - 1) : RLe(f.x[i], q) /\ RLe(q, f.x[i + 1])
Eval(f, q) == IF NK(f) = 1 THEN f.y[1]
              ELSE LET i == Seg(f, q)
                   IN  RAdd(f.y[i], RMul(RSub(q, f.x[i]),
                                         RDiv(RSub(f.y[i + 1], f.y[i]), RSub(f.x[i + 1], f.x[i]))))
\* np.interp(..., left=0, right=0)
EvalZeroOutside(f, q) == IF InDomain(f, q) THEN Eval(f, q) ELSE Zero
\* clamp above, caller refuses below
EvalClampHigh(f, q) == IF RLt(f.x[NK(f)], q) THEN f.y[NK(f)] ELSE Eval(f, q)

\* exact integral of f between a <= b, both inside the domain: trapezia on the union of
\* {a, b} and the knots strictly between
Trap(x1, y1, x2, y2) == RMul(RDiv(RAdd(y1, y2), RInt(2)), RSub(x2, x1))
RECURSIVE IntFrom(_, _, _, _)
IntFrom(f, a, b, i) ==      \* integral over [a, b] where a lies in segment i
  IF RLe(b, f.x[i + 1]) THEN Trap(a, Eval(f, a), b, Eval(f, b))
  ELSE RAdd(Trap(a, Eval(f, a), f.x[i + 1], f.y[i + 1]), IntFrom(f, f.x[i + 1], b, i + 1))
FirstSeg(f, a) == CHOOSE i \in 1..(NK(f) - 1) : RLe(f.x[i], a) /\ RLt(a, f.x[i + 1])
IntegralBetween(f, a, b) == IF RLe(b, a) THEN Zero ELSE IntFrom(f, a, b, FirstSeg(f, a))
Integral(f) == IntegralBetween(f, f.x[1], f.x[NK(f)])
=============================================================================
