SPECIFICATION Spec
CONSTANTS
  Pool <- PoolDef
  Grid <- GridDef
  KPat <- KDef
  U = 4
  Unit <- UnitDef
  MaxLines = 6
  NMins = {0, 1, 2, 3}
  OutSels <- OutSelsDef
  PostSels <- PostSelsDef
  Forms = {"path", "obj", "list"}
  Kinds = {"write_parameters", "write_parameter_ranges", "extract_parameters"}
  MaxPosts = 3
  SplitThr <- SplitThrDef

INVARIANT FileFaithful
INVARIANT SplitTotal



CHECK_DEADLOCK FALSE
INVARIANT EmitInv
