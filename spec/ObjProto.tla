------------------------------ MODULE ObjProto ------------------------------
(***************************************************************************)
(* X05 (extension).  The attribute protocols of the two value objects a    *)
(* user builds by hand: Source (valid / flux / error with a common length) *)
(* and ConvolvedFluxes (model_names, apertures, flux, error with shape     *)
(* (n_models, n_ap)).  Each setter call is one action; a refused call      *)
(* leaves the state unchanged.  The ALGORITHM LAYER is the setters as      *)
(* written (n_wav is derived from valid, else flux, else error -- the      *)
(* attribute being assigned included; ConvolvedFluxes validates flux/error *)
(* against the dimensions AT THE TIME OF THE CALL only).  The PROPERTY     *)
(* LAYER says what a caller may rely on; deliberate behaviours are named:  *)
(* SelfBlocking, ShapeCanGoStale.                                          *)
(***************************************************************************)
EXTENDS Integers, Sequences, TLC, Json
CONSTANTS MaxOps

(* ------------------------------ Source ------------------------------ *)
\* menu of values handed to a setter: "none", a 1-d sequence (kind "seq", with its content), or something else
VMenu == << [k |-> "none", v |-> <<>>], [k |-> "seq", v |-> <<>>], [k |-> "seq", v |-> <<1>>], [k |-> "seq", v |-> <<1, 4>>],
            [k |-> "seq", v |-> <<2, 0, 9>>], [k |-> "seq", v |-> <<3, 3>>],
            [k |-> "badrange", v |-> <<5>>], [k |-> "badrange", v |-> <<1, 7>>], [k |-> "nonint", v |-> <<1>>], [k |-> "scalar", v |-> <<>>], [k |-> "twod", v |-> <<>>] >>
FMenu == << [k |-> "none", v |-> <<>>], [k |-> "seq", v |-> <<>>], [k |-> "seq", v |-> <<10>>], [k |-> "seq", v |-> <<10, 20>>],
            [k |-> "seq", v |-> <<10, 20, 30>>], [k |-> "scalar", v |-> <<>>], [k |-> "twod", v |-> <<>>] >>
None == [k |-> "none", v |-> <<>>]
IsNone(a) == a.k = "none"
\* length a value would have as an array ("badrange"/"nonint" are 1-d sequences too)
IsSeq(val) == val.k \in {"seq", "badrange", "nonint"}

VARIABLES kind,            \* "source" | "conv" | "sed" : which object this behaviour drives
          sv, sf, se,      \* Source: valid, flux, error
          cn, ca, cf, ce,  \* ConvolvedFluxes: n_models | -1, n_ap | -1 (apertures None), flux shape <<a,b>> | <<>>, error shape
          dw, dn, da, dx,  \* SED: length of the stored wav | -1, of the stored nu | -1, n_ap | -1 (apertures None), flux shape | <<>>
          hist             \* the calls made, with outcome and the state after (emission only)
vars == <<kind, sv, sf, se, cn, ca, cf, ce, dw, dn, da, dx, hist>>

\* ALGORITHM: Source.n_wav
NWav == IF ~IsNone(sv) THEN Len(sv.v) ELSE IF ~IsNone(sf) THEN Len(sf.v) ELSE IF ~IsNone(se) THEN Len(se.v) ELSE -1
NData == IF IsNone(sv) THEN 0 ELSE Len(SelectSeq(sv.v, LAMBDA x : x \in {1, 4}))
\* outcome of a setter: "ok" | "ValueError" | "TypeError"
SrcOutcome(attr, val) ==
  IF val.k = "none" THEN "ok"
  ELSE IF ~IsSeq(val) THEN "TypeError"
  ELSE IF NWav # -1 /\ Len(val.v) # NWav THEN "ValueError"
  ELSE IF attr = "valid" /\ val.k \in {"badrange", "nonint"} THEN "ValueError"
  ELSE "ok"
SrcState == [valid |-> sv, flux |-> sf, error |-> se, n_wav |-> NWav, n_data |-> NData]
SetSrc(attr, val) ==
  /\ kind = "source" /\ Len(hist) < MaxOps
  /\ LET o == SrcOutcome(attr, val)
         stored == [k |-> IF val.k = "none" THEN "none" ELSE "seq", v |-> val.v]
     IN  /\ sv' = IF o = "ok" /\ attr = "valid" THEN stored ELSE sv
         /\ sf' = IF o = "ok" /\ attr = "flux" THEN stored ELSE sf
         /\ se' = IF o = "ok" /\ attr = "error" THEN stored ELSE se
         /\ hist' = Append(hist, [op |-> "set", attr |-> attr, val |-> val, out |-> o])
  /\ UNCHANGED <<kind, cn, ca, cf, ce, dw, dn, da, dx>>

(* -------------------------- ConvolvedFluxes -------------------------- *)
\* values: model_names: none | 1-d of n names | scalar ; apertures: none | 1-d length quantity of k | bare numbers (no unit) |
\* wrong physical type ; flux/error: none | 2-d quantity of shape <<a,b>> | 1-d | bare 2-d | wrong physical type
NMenu == << [k |-> "none", n |-> 0], [k |-> "seq", n |-> 1], [k |-> "seq", n |-> 2], [k |-> "scalar", n |-> 0] >>
AMenu == << [k |-> "none", n |-> 0], [k |-> "seq", n |-> 1], [k |-> "seq", n |-> 2], [k |-> "bare", n |-> 2], [k |-> "wrongtype", n |-> 2] >>
XMenu == << [k |-> "none", s |-> <<>>], [k |-> "arr", s |-> <<1, 1>>], [k |-> "arr", s |-> <<2, 1>>], [k |-> "arr", s |-> <<1, 2>>], [k |-> "arr", s |-> <<2, 2>>],
            [k |-> "oned", s |-> <<2>>], [k |-> "bare", s |-> <<2, 2>>], [k |-> "wrongtype", s |-> <<2, 2>>] >>
NAp == IF ca = -1 THEN 1 ELSE ca
ConvOutcome(attr, val) ==
  IF val.k = "none" THEN "ok"
  ELSE IF attr = "model_names" THEN (IF val.k = "seq" THEN "ok" ELSE "TypeError")
  ELSE IF attr = "apertures" THEN (IF val.k = "seq" THEN "ok" ELSE "TypeError")
  ELSE \* flux / error
       IF cn = -1 THEN "ValueError"                        \* model_names has not been set
       ELSE IF val.k \in {"bare", "wrongtype"} THEN "TypeError"
       ELSE IF val.k = "oned" THEN "TypeError"
       ELSE IF val.s # <<cn, NAp>> THEN "ValueError"
       ELSE "ok"
SetConv(attr, val) ==
  /\ kind = "conv" /\ Len(hist) < MaxOps
  /\ LET o == ConvOutcome(attr, val) IN
     /\ cn' = IF o = "ok" /\ attr = "model_names" THEN (IF val.k = "none" THEN -1 ELSE val.n) ELSE cn
     /\ ca' = IF o = "ok" /\ attr = "apertures" THEN (IF val.k = "none" THEN -1 ELSE val.n) ELSE ca
     /\ cf' = IF o = "ok" /\ attr = "flux" THEN (IF val.k = "none" THEN <<>> ELSE val.s) ELSE cf
     /\ ce' = IF o = "ok" /\ attr = "error" THEN (IF val.k = "none" THEN <<>> ELSE val.s) ELSE ce
     /\ hist' = Append(hist, [op |-> "set", attr |-> attr, val |-> val, out |-> o])
  /\ UNCHANGED <<kind, sv, sf, se, dw, dn, da, dx>>

(* -------------------------------- SED -------------------------------- *)
\* wav and nu are two views of ONE spectral axis: the getter of the one that is not stored derives it from the other.  The setters
\* validate the length against the OTHER view AS THE GETTER RETURNS IT -- so an axis stored as wav alone also fixes the length a new
\* wav must have (named behaviour SelfBlocking again), and wav and nu may be set to values that contradict each other (only the
\* lengths are compared: named behaviour AxesMayDisagree, not modelled further).
SMenu == << [k |-> "none", n |-> 0], [k |-> "seq", n |-> 2], [k |-> "seq", n |-> 3], [k |-> "bare", n |-> 2], [k |-> "wrongtype", n |-> 2] >>
ViewLen(stored, other) == IF stored # -1 THEN stored ELSE other        \* length the getter reports (-1: None)
WavLen == ViewLen(dw, dn)
NuLen == ViewLen(dn, dw)
SNAp == IF da = -1 THEN 1 ELSE da
SedOutcome(attr, val) ==
  IF val.k = "none" THEN "ok"
  ELSE IF attr \in {"wav", "nu"} THEN
         IF val.k # "seq" THEN "TypeError"
         ELSE LET other == IF attr = "wav" THEN NuLen ELSE WavLen
              IN  IF other # -1 /\ val.n # other THEN "ValueError" ELSE "ok"
  ELSE IF attr = "apertures" THEN (IF val.k = "seq" THEN "ok" ELSE "TypeError")
  ELSE \* flux
       IF val.k \in {"bare", "wrongtype", "oned"} THEN "TypeError"
       ELSE IF WavLen = -1 \/ val.s # <<SNAp, WavLen>> THEN "ValueError"     \* no spectral axis: n_wav is None, no shape matches
       ELSE "ok"
SetSed(attr, val) ==
  /\ kind = "sed" /\ Len(hist) < MaxOps
  /\ LET o == SedOutcome(attr, val) IN
     /\ dw' = IF o = "ok" /\ attr = "wav" THEN (IF val.k = "none" THEN -1 ELSE val.n) ELSE dw
     /\ dn' = IF o = "ok" /\ attr = "nu" THEN (IF val.k = "none" THEN -1 ELSE val.n) ELSE dn
     /\ da' = IF o = "ok" /\ attr = "apertures" THEN (IF val.k = "none" THEN -1 ELSE val.n) ELSE da
     /\ dx' = IF o = "ok" /\ attr = "flux" THEN (IF val.k = "none" THEN <<>> ELSE val.s) ELSE dx
     /\ hist' = Append(hist, [op |-> "set", attr |-> attr, val |-> val, out |-> o])
  /\ UNCHANGED <<kind, sv, sf, se, cn, ca, cf, ce>>
\* flux values for the SED: shapes <<n_ap, n_wav>>
SXMenu == << [k |-> "none", s |-> <<>>], [k |-> "arr", s |-> <<1, 2>>], [k |-> "arr", s |-> <<1, 3>>], [k |-> "arr", s |-> <<2, 2>>], [k |-> "arr", s |-> <<2, 3>>],
             [k |-> "oned", s |-> <<2>>], [k |-> "bare", s |-> <<1, 2>>] >>

Init == /\ kind \in {"source", "conv", "sed"}
        /\ dw = -1 /\ dn = -1 /\ da = -1 /\ dx = <<>>
        /\ sv = None /\ sf = None /\ se = None
        /\ cn = -1 /\ ca = -1 /\ cf = <<>> /\ ce = <<>> /\ hist = <<>>
Next == \/ \E i \in 1..Len(VMenu) : SetSrc("valid", VMenu[i])
        \/ \E i \in 1..Len(FMenu) : SetSrc("flux", FMenu[i]) \/ SetSrc("error", FMenu[i])
        \/ \E i \in 1..Len(NMenu) : SetConv("model_names", NMenu[i])
        \/ \E i \in 1..Len(AMenu) : SetConv("apertures", AMenu[i])
        \/ \E i \in 1..Len(XMenu) : SetConv("flux", XMenu[i]) \/ SetConv("error", XMenu[i])
        \/ \E i \in 1..Len(SMenu) : SetSed("wav", SMenu[i]) \/ SetSed("nu", SMenu[i])
        \/ \E i \in 1..Len(AMenu) : SetSed("apertures", AMenu[i])
        \/ \E i \in 1..Len(SXMenu) : SetSed("flux", SXMenu[i])
Spec == Init /\ [][Next]_vars

(* ------------------------------ properties ------------------------------ *)
\* Source: whatever the history, the attributes that are set have one common length, and only legal flags are stored
LengthsAgree == \A a, b \in {sv, sf, se} : (~IsNone(a) /\ ~IsNone(b)) => Len(a.v) = Len(b.v)
FlagsLegal == ~IsNone(sv) => \A j \in 1..Len(sv.v) : sv.v[j] \in {0, 1, 2, 3, 4, 9}
\* a refused call changes nothing
RefusedStep == (hist' # hist /\ hist'[Len(hist')].out # "ok") => UNCHANGED <<sv, sf, se, cn, ca, cf, ce, dw, dn, da, dx>>
RefusedIsNoop == [][RefusedStep]_vars
\* declarative reading of the Source setters: a 1-d value is accepted iff its length agrees with the OTHER attributes that are set ...
Others(attr) == IF attr = "valid" THEN {sf, se} ELSE IF attr = "flux" THEN {sv, se} ELSE {sv, sf}
Self(attr) == IF attr = "valid" THEN sv ELSE IF attr = "flux" THEN sf ELSE se
AgreesWithOthers(attr, val) == \A a \in Others(attr) : ~IsNone(a) => Len(a.v) = Len(val.v)
\* ... EXCEPT (named behaviour SelfBlocking) that an attribute already set also blocks its own re-assignment with another length,
\* even when nothing else is set: it has to be reset to None first
SelfBlocked(attr, val) == ~IsNone(Self(attr)) /\ Len(Self(attr).v) # Len(val.v)
SourceAcceptance ==
  kind = "source" => \A attr \in {"valid", "flux", "error"} : \A i \in 1..Len(FMenu) :
     LET val == FMenu[i] IN
     val.k = "seq" => ((SrcOutcome(attr, val) = "ok") <=> (AgreesWithOthers(attr, val) /\ ~SelfBlocked(attr, val)))
SelfBlockingHappens == TRUE   \* see cfg: reachability of SelfBlocked is shown by the negated invariant in MC_ObjProto_reach.cfg
NeverSelfBlocked == ~(kind = "source" /\ \E i \in 1..Len(FMenu) : FMenu[i].k = "seq" /\ AgreesWithOthers("flux", FMenu[i]) /\ SelfBlocked("flux", FMenu[i]))

\* ConvolvedFluxes: flux and error had the right shape WHEN THEY WERE SET; named behaviour ShapeCanGoStale: re-assigning
\* model_names or apertures afterwards is not re-validated
ShapeOk(s) == s = <<>> \/ s = <<cn, NAp>>
ShapeConsistent == kind = "conv" => (ShapeOk(cf) /\ ShapeOk(ce))            \* NOT an invariant of the algorithm layer
ShapeOkNext(s) == s = <<>> \/ s = <<cn', IF ca' = -1 THEN 1 ELSE ca'>>
FluxStep == (kind = "conv" /\ ShapeOk(cf) /\ ShapeOk(ce) /\ hist' # hist /\ hist'[Len(hist')].attr \in {"flux", "error"}) => (ShapeOkNext(cf') /\ ShapeOkNext(ce'))
ShapeConsistentUnlessDimsReset == [][FluxStep]_vars
FluxNeedsNames == kind = "conv" => (cn = -1 => \A i \in 2..Len(XMenu) : ConvOutcome("flux", XMenu[i]) # "ok")

\* SED: the two views of the spectral axis never report different lengths, and a flux array is accepted only when an axis exists
AxisLengthsAgree == kind = "sed" => (dw = -1 \/ dn = -1 \/ dw = dn)
SedFluxNeedsAxis == kind = "sed" => (WavLen = -1 => \A i \in 2..Len(SXMenu) : SedOutcome("flux", SXMenu[i]) # "ok")
\* reachability of SelfBlocking for the SED (negated in MC_ObjProto_reach.cfg): an axis stored as wav alone refuses a new wav of another length
SedNeverSelfBlocked == ~(kind = "sed" /\ dw # -1 /\ dn = -1 /\ SedOutcome("wav", [k |-> "seq", n |-> (IF dw = 2 THEN 3 ELSE 2)]) = "ValueError")

(* ------------------------------ emission ------------------------------ *)
Done == Len(hist) = MaxOps
ConvState == [n_models |-> cn, n_ap |-> NAp, apertures_none |-> (ca = -1), flux |-> cf, error |-> ce]
SedState == [wav_len |-> WavLen, nu_len |-> NuLen, wav_stored |-> (dw # -1), nu_stored |-> (dn # -1), n_ap |-> SNAp, apertures_none |-> (da = -1), flux |-> dx]
EmitInv == Done => PrintT(ToJson([kind |-> kind, hist |-> hist, src |-> SrcState, conv |-> ConvState, sed |-> SedState, stale |-> ~(ShapeOk(cf) /\ ShapeOk(ce))]))
=============================================================================
