-------------------------------- MODULE Post --------------------------------
(***************************************************************************)
(* C09.  What write_parameters / write_parameter_ranges /                  *)
(* extract_parameters print for one record of a fit output file.           *)
(* Built on FitSession (ranking, chi^2, selection).  Model parameters are  *)
(* Par[m] (one value per column) in PACKAGE-INDEX order; the parameter     *)
(* FILE lists the models in an arbitrary row order `torder`.               *)
(*                                                                         *)
(* ALGORITHM LAYER (FitInfo.filter_table on a table):                      *)
(*    subset = rows of the table whose name is among the kept fits         *)
(*    index  = argsort(argsort(names of the kept fits))                    *)
(*    result = subset[index]                                               *)
(* which attaches to fit i the row of the model named in fit i exactly     *)
(* when the table is sorted by name (write_* sort it first).               *)
(***************************************************************************)
EXTENDS FitSession, Json
CONSTANTS Par, NPar
VARIABLES sid, nrec, psel, torder, sorted
pvars == <<sid, nrec, psel, torder, sorted>>

PermsM == {p \in [1..NM -> 1..NM] : \A x, y \in 1..NM : x # y => p[x] # p[y]}
\* model ids are ordered like model names
SortIds(s) == LET n == Len(s) IN
              CHOOSE t \in [1..n -> 1..NM] : (\A i \in 1..(n - 1) : t[i] < t[i + 1]) /\ {t[i] : i \in 1..n} = {s[i] : i \in 1..n}
ArgSortS(s) == LET n == Len(s) IN
               CHOOSE p \in [1..n -> 1..n] : (\A x, y \in 1..n : x # y => p[x] # p[y]) /\ (\A i \in 1..(n - 1) : s[p[i]] < s[p[i + 1]])
FilterTable(table, fitnames) ==
  LET n == Len(fitnames)
      subset == SelectSeq(table, LAMBDA m : \E i \in 1..n : fitnames[i] = m)
      index == ArgSortS(ArgSortS(fitnames))
  IN  [i \in 1..n |-> subset[index[i]]]

Kept(s, nr, sel) == LET K2 == Counts(s, nr, sel) IN CHOOSE a \in K2 : \A b \in K2 : a <= b
FitNames(s, n) == [i \in 1..n |-> RankTab[s][i]]
Table == IF sorted THEN SortIds(torder) ELSE torder

PInit == /\ sid \in {x \in 1..Len(Pool) : ~Singular(Pool[x], KPat)} /\ nrec \in 0..NM
         /\ psel = [f |-> "none", v |-> 0] /\ torder = <<>> /\ sorted = TRUE
         /\ pc = "idle" /\ run = [lines |-> <<>>, nmin |-> 0, sel |-> [f |-> "A", v |-> 0], conv |-> FALSE]
         /\ pos = 1 /\ cur = [sid |-> 0, n |-> 0, pred |-> FALSE] /\ file = <<>> /\ objs = <<>> /\ nposts = 0 /\ hist = <<>>
\* the call is chosen in two steps so that TLC's workers share the enumeration
ChooseSel == psel.f = "none" /\ psel' \in PostSels /\ UNCHANGED <<vars, sid, nrec, torder, sorted>>
ChooseTable == psel.f # "none" /\ torder = <<>> /\ torder' \in PermsM /\ sorted' \in BOOLEAN /\ UNCHANGED <<vars, sid, nrec, psel>>
PSpec == PInit /\ [][ChooseSel \/ ChooseTable]_<<vars, pvars>>
Chosen == torder # <<>>

(* C09 *)
\* with a name-sorted table the row attached to fit i is the row of the model named in fit i
RowsFollowRanking == (Chosen /\ sorted) => LET n == Kept(sid, nrec, psel) IN FilterTable(Table, FitNames(sid, n)) = FitNames(sid, n)
\* ... and this is exactly what the sort is for: an unsorted table is mis-attached unless it happens to be sorted
SortIsNeeded == (Chosen /\ ~sorted /\ Kept(sid, nrec, psel) = NM) => ((FilterTable(Table, FitNames(sid, NM)) = FitNames(sid, NM)) <=> (torder = SortIds(torder)))

FitRow(s, m) == LET r == FitOf(s, m) IN [model |-> m, chi |-> r.chi, big |-> r.big, u |-> r.u, v |-> r.v, par |-> Par[m]]
TieAtCut(s, n) == n >= 1 /\ n < NM /\ ChiTab[s][n] = ChiTab[s][n + 1]
EmitInv == (Chosen /\ sorted /\ torder = SortIds(torder)) =>
  PrintT(ToJson([sid |-> sid, nrec |-> nrec, sel |-> psel, nd |-> ND(sid),
                 lo |-> Kept(sid, nrec, psel),
                 hi |-> (LET K2 == Counts(sid, nrec, psel) IN CHOOSE a \in K2 : \A b \in K2 : a >= b),
                 tie |-> TieAtCut(sid, Kept(sid, nrec, psel)),
                 models |-> [m \in 1..NM |-> FitRow(sid, m)],
                 ranking |-> RankTab[sid]]))
=============================================================================
