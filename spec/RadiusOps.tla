------------------------------- MODULE RadiusOps -------------------------------
(* Constant-level radius finders of ConvolvedFluxes on an aperture table:          *)
(* a : Seq(Int) increasing radii, F : Seq(Rat) fluxes.  See Radius.tla.            *)
EXTENDS Rat
SigT(a, F, k) == IF k = 1 THEN RDiv(F[1], RInt(a[1] * a[1])) ELSE RDiv(RSub(F[k], F[k - 1]), RInt(a[k] * a[k] - a[k - 1] * a[k - 1]))
RECURSIVE SigMaxT(_, _, _)
SigMaxT(a, F, k) == IF k = 1 THEN SigT(a, F, 1) ELSE RMax(SigT(a, F, k), SigMaxT(a, F, k - 1))
\* find_radius_sigma: loop from the outside inwards, first hit wins, then the last-aperture override
RECURSIVE SigmaLoopT(_, _, _, _, _)
SigmaLoopT(a, F, ia, thr, radius) ==
  IF ia = 0 THEN radius
  ELSE IF RLt(thr, SigT(a, F, ia)) /\ radius = Zero
       THEN SigmaLoopT(a, F, ia - 1, thr, RAdd(RMul(RDiv(RSub(SigT(a, F, ia), thr), RSub(SigT(a, F, ia), SigT(a, F, ia + 1))),
                                                     RInt(a[ia + 1] - a[ia])), RInt(a[ia])))
       ELSE SigmaLoopT(a, F, ia - 1, thr, radius)
RadiusSigmaT(a, F, f) == LET n == Len(a)
                             thr == RMul(f, SigMaxT(a, F, n))
                         IN  IF RLt(thr, SigT(a, F, n)) THEN RInt(a[n]) ELSE SigmaLoopT(a, F, n - 1, thr, Zero)
=============================================================================
