---------------------------- MODULE Trace_Select ----------------------------
(* Validation of recorded FitInfo.keep() histories against Select (C05).     *)
(* Batched: one TLC run checks every trace of $TRACE_FILE; verdicts are      *)
(* total (every event is consumed; disagreements are collected in viol).     *)
EXTENDS Select, TLC, Json, IOUtils, SequencesExt, FiniteSetsExt
Traces == JsonDeserialize(IOEnv.TRACE_FILE)
VARIABLES tid, l, rows, nd, viol
vars == <<tid, l, rows, nd, viol>>

Val(j)  == [k |-> j.k, v |-> j.v]
Tr      == Traces[tid]
Chis(r) == [i \in 1..Len(r) |-> r[i].chi]
Ids(r)  == [i \in 1..Len(r) |-> r[i].id]

Init == /\ tid \in 1..Len(Traces)
        /\ l = 1 /\ rows = <<>> /\ nd = 0 /\ viol = {}

EvInit == /\ l = 1 /\ l <= Len(Tr) /\ Tr[l].ev = "Init"
          /\ rows' = [i \in 1..Len(Tr[l].chis) |-> [id |-> i, chi |-> Val(Tr[l].chis[i])]]
          /\ nd' = Tr[l].nd
          /\ viol' = IF Ranked([i \in 1..Len(Tr[l].chis) |-> Val(Tr[l].chis[i])]) THEN {} ELSE {<<l, "init.unranked">>}
          /\ l' = l + 1 /\ UNCHANGED tid

\* every per-fit array (logged as the sequence of row ids it still holds) must be the
\* same prefix of the ranking
ArrayClauses(e, expectIds) ==
     (IF e.ids_chi2  = expectIds THEN {} ELSE {<<l, "keep.chi2">>})
\cup (IF e.ids_av    = expectIds THEN {} ELSE {<<l, "keep.av">>})
\cup (IF e.ids_sc    = expectIds THEN {} ELSE {<<l, "keep.sc">>})
\cup (IF e.ids_name  = expectIds THEN {} ELSE {<<l, "keep.model_name">>})
\cup (IF e.ids_id    = expectIds THEN {} ELSE {<<l, "keep.model_id">>})
\cup (IF e.has_flux = 0 \/ e.ids_flux = expectIds THEN {} ELSE {<<l, "keep.model_fluxes">>})

EvKeep == /\ l > 1 /\ l <= Len(Tr) /\ Tr[l].ev = "Keep"
          /\ LET e    == Tr[l]
                 sel  == IF e.f \in {"A", "N"} THEN [f |-> e.f, v |-> e.narg] ELSE [f |-> e.f, v |-> Val(e.thr)]
                 adm  == KeepCounts(Chis(rows), sel, nd)
                 nObs == e.n
                 n    == IF nObs \in adm THEN nObs ELSE CHOOSE k \in adm : TRUE
             IN  /\ rows' = Prefix(rows, n)
                 /\ viol' = viol \cup (IF nObs \in adm THEN {} ELSE {<<l, "keep.count">>})
                                 \cup ArrayClauses(e, Ids(Prefix(rows, n)))
          /\ l' = l + 1 /\ UNCHANGED <<tid, nd>>

EvBad == /\ l <= Len(Tr) /\ ~(Tr[l].ev = "Init" /\ l = 1) /\ ~(Tr[l].ev = "Keep" /\ l > 1)
         /\ viol' = viol \cup {<<l, "unknown.event">>}
         /\ l' = l + 1 /\ UNCHANGED <<tid, rows, nd>>

Done == /\ l = Len(Tr) + 1
        /\ PrintT(ToJson([tid |-> tid, ok |-> (viol = {}), viol |-> SetToSeq(viol)]))
        /\ l' = l + 1 /\ UNCHANGED <<tid, rows, nd, viol>>

Next == EvInit \/ EvKeep \/ EvBad \/ Done
Spec == Init /\ [][Next]_vars
=============================================================================
