SPECIFICATION Spec
CONSTANTS
  MaxFits = 5
INVARIANT CurveCount
INVARIANT BestLast
INVARIANT EveryFitShown
INVARIANT PassesThroughPred
INVARIANT EmitInv
CHECK_DEADLOCK FALSE
