-------------------------------- MODULE Rat --------------------------------
(***************************************************************************)
(* Exact rational arithmetic for TLC (32-bit integers; TLC reports         *)
(* overflow as an error, which the harness treats as a machinery failure,  *)
(* never as a verdict).  A rational is <<n, d>> with d > 0, gcd(n, d) = 1. *)
(* Every operation cross-cancels before multiplying to stay in range.      *)
(* Also: decimal expansion by long division (Dec) and the one float <->    *)
(* rational comparison used by every trace spec (Close).                   *)
(***************************************************************************)
EXTENDS Integers, Sequences

Abs(x) == IF x < 0 THEN -x ELSE x
Sign(x) == IF x < 0 THEN -1 ELSE IF x > 0 THEN 1 ELSE 0

RECURSIVE Gcd(_, _)
Gcd(a, b) == IF b = 0 THEN a ELSE Gcd(b, a % b)
GCD(a, b) == Gcd(Abs(a), Abs(b))

\* constructor: any n, any d # 0
R(n, d) == LET g == GCD(n, d)
               s == IF d < 0 THEN -1 ELSE 1
           IN  IF n = 0 THEN <<0, 1>> ELSE <<s * (n \div g), s * (d \div g)>>
RInt(n) == <<n, 1>>
Zero == <<0, 1>>
One  == <<1, 1>>

Num(a) == a[1]
Den(a) == a[2]

RNeg(a) == <<-a[1], a[2]>>
RAbs(a) == <<Abs(a[1]), a[2]>>
RSign(a) == Sign(a[1])

RAdd(a, b) == LET g == GCD(a[2], b[2])
                  bd == b[2] \div g
                  ad == a[2] \div g
              IN  R(a[1] * bd + b[1] * ad, ad * b[2])
RSub(a, b) == RAdd(a, RNeg(b))
RMul(a, b) == LET g1 == GCD(a[1], b[2])
                  g2 == GCD(b[1], a[2])
              IN  IF a[1] = 0 \/ b[1] = 0 THEN Zero
                  ELSE <<(a[1] \div g1) * (b[1] \div g2), (a[2] \div g2) * (b[2] \div g1)>>
RInv(a) == IF a[1] < 0 THEN <<-a[2], -a[1]>> ELSE <<a[2], a[1]>>     \* a # 0
RDiv(a, b) == RMul(a, RInv(b))
RScale(k, a) == RMul(RInt(k), a)

\* comparison without forming a common denominator larger than needed
RLt(a, b) == LET g == GCD(a[2], b[2]) IN a[1] * (b[2] \div g) < b[1] * (a[2] \div g)
RLe(a, b) == LET g == GCD(a[2], b[2]) IN a[1] * (b[2] \div g) <= b[1] * (a[2] \div g)
REq(a, b) == a = b
RMin(a, b) == IF RLe(a, b) THEN a ELSE b
RMax(a, b) == IF RLe(a, b) THEN b ELSE a
RClamp(x, lo, hi) == IF RLt(x, lo) THEN lo ELSE IF RLt(hi, x) THEN hi ELSE x

RECURSIVE RSumSeq(_)
RSumSeq(s) == IF s = <<>> THEN Zero ELSE RAdd(Head(s), RSumSeq(Tail(s)))

RECURSIVE Pow10(_)
Pow10(k) == IF k = 0 THEN 1 ELSE 10 * Pow10(k - 1)

(***************************************************************************)
(* Dec(a, nd): <<M, e>> with  |a| ~ M * 10^e,  10^(nd-1) <= M < 10^nd       *)
(* (truncated, not rounded), computed one digit at a time; needs           *)
(* 10 * Den(a) < 2^31.  Dec(0) = <<0, 0>>.                                  *)
(***************************************************************************)
RECURSIVE DecDown(_, _, _)   \* integer part too long: drop low digits
DecDown(m, e, lim) == IF m < lim THEN <<m, e>> ELSE DecDown(m \div 10, e + 1, lim)
RECURSIVE DecUp(_, _, _, _, _) \* generate further digits
DecUp(m, r, q, e, lo) == IF m >= lo THEN <<m, e>>
                         ELSE DecUp(m * 10 + ((r * 10) \div q), (r * 10) % q, q, e - 1, lo)
Dec(a, nd) == LET p == Abs(a[1])  q == a[2]
              IN  IF p = 0 THEN <<0, 0>>
                  ELSE LET ip == p \div q  r == p % q
                       IN  IF ip >= Pow10(nd - 1) THEN DecDown(ip, 0, Pow10(nd))
                           ELSE DecUp(ip, r, q, 0, Pow10(nd - 1))

(***************************************************************************)
(* Close(obs, a): obs = <<M, e>> is the harness's 7-significant-digit      *)
(* rendering of a float (sign in M); a is the exact rational.  Holds iff   *)
(* the 7-digit expansions differ by at most Tol units in the last place,   *)
(* or both magnitudes are below 10^-9 (absolute floor).                    *)
(***************************************************************************)
Tiny(m, e) == m = 0 \/ e < -16 \/ (e <= -9 /\ m < Pow10(-9 - e))
CloseTol(obs, a, tol) ==
  LET d  == Dec(a, 7)
      M  == Abs(obs[1])  e == obs[2]
      M2 == d[1]         e2 == d[2]
  IN  \/ (Tiny(M, e) /\ Tiny(M2, e2))
      \/ /\ (M = 0 \/ M2 = 0 \/ Sign(obs[1]) = RSign(a))
         /\ \/ (e = e2 /\ Abs(M - M2) <= tol)
            \/ (e = e2 + 1 /\ Abs(M * 10 - M2) <= 10 * tol)
            \/ (e2 = e + 1 /\ Abs(M2 * 10 - M) <= 10 * tol)
Close(obs, a) == CloseTol(obs, a, 3)
=============================================================================
