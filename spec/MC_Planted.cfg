SPECIFICATION Spec
INVARIANT PlantedRecovered
INVARIANT PlantedFirst
INVARIANT DarkLast
INVARIANT EmitInv
CHECK_DEADLOCK FALSE
