SPECIFICATION Spec
INVARIANT PlantedRecovered
INVARIANT EmitInv
CHECK_DEADLOCK FALSE
