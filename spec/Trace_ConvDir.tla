---------------------------- MODULE Trace_ConvDir ----------------------------
(* Recorded histories of convolution calls on real packages (longer than the   *)
(* model-checked ones, with filter lists TLC does not enumerate, e.g. a filter *)
(* named twice), validated against ConvDir: every logged call is taken with    *)
(* the spec's own action and the logged outcome / directory state compared.    *)
EXTENDS ConvDir, IOUtils, SequencesExt, FiniteSetsExt
Traces == JsonDeserialize(IOEnv.TRACE_FILE)
VARIABLES tid, l, viol
tvars == <<tid, l, viol>>
Tr == Traces[tid]
TInit == /\ tid \in 1..Len(Traces) /\ l = 2 /\ viol = {}
         /\ fmt = Tr[1].fmt /\ gen = 1 /\ files = [f \in Files |-> 0] /\ hist = <<>>
Ev == Tr[l]
SameFiles(logged, fl) == \A f \in Files : logged[f] = fl[f]
Judge == viol' = viol \cup (IF hist'[Len(hist')].out = Ev.out THEN {} ELSE {<<l, "call.outcome">>})
                      \cup (IF SameFiles(Ev.files, files') THEN {} ELSE {<<l, "call.files">>})
EvConvolve == /\ l <= Len(Tr) /\ Ev.op.k = "convolve" /\ Convolve(Ev.op.fs, Ev.op.ow) /\ Judge
              /\ l' = l + 1 /\ UNCHANGED tid
EvMono == /\ l <= Len(Tr) /\ Ev.op.k = "mono" /\ Mono(Ev.op.lo, Ev.op.hi, Ev.op.ow) /\ Judge
          /\ l' = l + 1 /\ UNCHANGED tid
EvBump == /\ l <= Len(Tr) /\ Ev.op.k = "bump" /\ Bump /\ viol' = viol /\ l' = l + 1 /\ UNCHANGED tid
TDone == /\ l = Len(Tr) + 1
        /\ PrintT(ToJson([tid |-> tid, ok |-> (viol = {}), viol |-> SetToSeq(viol)]))
        /\ l' = l + 1 /\ UNCHANGED <<tid, viol>> /\ UNCHANGED vars
TNext == EvConvolve \/ EvMono \/ EvBump \/ TDone
TSpec == TInit /\ [][TNext]_<<tvars, vars>>
=============================================================================
