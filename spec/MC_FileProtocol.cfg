SPECIFICATION Spec
CONSTANTS
  MaxOps = 6
INVARIANT OneMeta
INVARIANT Ordered
INVARIANT EmitInv
PROPERTY ReadOnly
CHECK_DEADLOCK FALSE
