SPECIFICATION Spec
CONSTANTS
  Pool <- PoolDef
  Grid <- GridDef
  KPat <- KDef
  U = 4
  Unit <- UnitDef
  MaxLines = 3
  NMins = {0, 1, 2, 3}
  OutSels <- OutSelsDef
  PostSels <- PostSelsDef
  Forms = {"path", "obj", "list"}
  Kinds = {"write_parameters", "write_parameter_ranges", "extract_parameters"}
  MaxPosts = 2
  SplitThr <- SplitThrDef
VIEW view
INVARIANT FileFaithful
INVARIANT SplitTotal
PROPERTY FileGrowsOnly
PROPERTY PostPure
PROPERTY RunTerminates
CHECK_DEADLOCK FALSE
