SPECIFICATION Spec
CONSTANTS
  MaxLen = 3
  NNames = 3
INVARIANT OkMeansAligned
INVARIANT PermutationAccepted
INVARIANT SameLengthStrangerRefused
INVARIANT LongerIsIndexError
INVARIANT DuplicatesKeepFileOrder
INVARIANT TruncationOnlyOfSmallest
INVARIANT PaddedObjectNeverAccepted
INVARIANT EmitInv
CHECK_DEADLOCK FALSE
