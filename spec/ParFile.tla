------------------------------- MODULE ParFile -------------------------------
(***************************************************************************)
(* Extension (X03): utils/parfile.read, the reader of models.conf.         *)
(* A file is a sequence of lines of the kinds                              *)
(*   "comment" (# first)   "blank"   "noeq" (no '=')                       *)
(*   [k |-> "kv", key, val, extra]: key = val (= extra ...) where val is   *)
(*        one of the value classes below; text after a second '=' is lost  *)
(* conf format: key = value; par format: value = key.                      *)
(* value classes -> typed result: "int" -> integer, "float" -> float,      *)
(*   "yes" / "no" (any of y, yes, n, no in any case) -> TRUE / FALSE,      *)
(*   "str" -> the string itself.  A later line overrides an earlier one.   *)
(***************************************************************************)
EXTENDS Integers, Sequences, TLC, Json
CONSTANTS MaxLines
VARIABLES lines, fmt
Keys == {"k1", "k2"}
Vals == {"int", "float", "yes", "no", "str"}
LineKinds == {[k |-> "comment"], [k |-> "blank"], [k |-> "noeq"]}
             \cup {[k |-> "kv", key |-> kk, val |-> v, extra |-> e] : kk \in Keys, v \in Vals, e \in BOOLEAN}
Init == lines = <<>> /\ fmt \in {"conf", "par"}
AddLine(ln) == Len(lines) < MaxLines /\ lines' = Append(lines, ln) /\ UNCHANGED fmt
Next == \E ln \in LineKinds : AddLine(ln)
Spec == Init /\ [][Next]_<<lines, fmt>>
Typed(v) == CASE v = "int" -> "int" [] v = "float" -> "float" [] v = "yes" -> "true" [] v = "no" -> "false" [] v = "str" -> "str"
\* ALGORITHM LAYER: fold over the lines, later assignments win.  In "par" format the roles of the two sides are
\* swapped: the left side is the value, the right side (up to a second '=') the key.
RECURSIVE Fold(_, _)
Fold(i, d) == IF i > Len(lines) THEN d
              ELSE IF lines[i].k = "kv" THEN Fold(i + 1, [d EXCEPT ![lines[i].key] = [set |-> TRUE, line |-> i, type |-> Typed(lines[i].val)]])
              ELSE Fold(i + 1, d)
Result == Fold(1, [kk \in Keys |-> [set |-> FALSE, line |-> 0, type |-> "none"]])
\* PROPERTY LAYER: a key is defined iff some kv line names it, and its value comes from the LAST such line
LastWins == \A kk \in Keys :
   LET S == {i \in 1..Len(lines) : lines[i].k = "kv" /\ lines[i].key = kk}
   IN  IF S = {} THEN ~Result[kk].set
       ELSE Result[kk].set /\ Result[kk].line = (CHOOSE i \in S : \A j \in S : j <= i)
EmitInv == Len(lines) = MaxLines => PrintT(ToJson([fmt |-> fmt, lines |-> lines, result |-> Result]))
=============================================================================
